// C13 correspondence driver: a real active ha.HASyncer and a real standby ha.HASyncer at the
// message layer, vs Model/HaSync.v.
//
// The driver plays (a) the session manager of the active node (store update + PushChange), (b) the
// active's broadcastLoop, one iteration at a time (hook), (c) the standby's standbyLoop sequencing:
// the real performFullSync over loopback HTTP against the active's real /ha/sessions handler, then
// the stream: the active's real handleSessionStream runs in a goroutine writing into a driver-owned
// ResponseWriter whose Flush blocks until the schedule delivers the event; the bytes written are
// split as connectToStream splits them and handed to the standby's real handleSSEData.
package main

import (
	"bytes"
	"context"
	"encoding/json"
	"fmt"
	"io"
	"log"
	"net/http"
	"net/http/httptest"
	"reflect"
	"sort"
	"strings"
	"sync"
	"sync/atomic"
	"time"

	"verifharness/vh"

	"github.com/codelaboratoryltd/bng/pkg/ha"
	"go.uber.org/zap"
)

type Op struct {
	K  string `json:"k"` // put del bcast hb sync syncfail attach deliver disc restart (e2e: put del disc reconnect cutsync restart)
	ID int    `json:"id,omitempty"`
	V  int64  `json:"v,omitempty"` // encoded full record (two bits per SessionState field, struct order)
	N  int    `json:"n,omitempty"` // repeat count (bursts); 0 = once
	G  bool   `json:"g,omitempty"` // e2e reconnect: the new stream handler is held right after its first flush while change (ID, V) is pushed and broadcast
	F  int    `json:"f,omitempty"` // syncfail / cutsync: fault kind (0 refused with 503, 1 body cut half way, 2 undecodable body)
}
type Case struct {
	Ops []Op `json:"ops"`
	E2E bool `json:"e2e,omitempty"` // end-to-end schedule (ops: put del disc reconnect), real standbyLoop
	Size int `json:"size,omitempty"` // size class of value B of the long string fields: 0 short, 1 > 4 KB, 2 > 64 KB
	HB  bool `json:"hb,omitempty"`  // e2e: the active's heartbeat ticker fires every 3 ms (default 10 s: never within a case)
}

const nIDs = 4

// ---- one shared loopback HTTP server; the handler of the case in progress is swapped in ----
var (
	srvMu  sync.Mutex
	srvCur http.HandlerFunc
	srv    *httptest.Server
)

func server() *httptest.Server {
	if srv == nil {
		mux := http.NewServeMux()
		mux.HandleFunc("/ha/sessions", func(w http.ResponseWriter, r *http.Request) {
			srvMu.Lock()
			h := srvCur
			srvMu.Unlock()
			h(w, r)
		})
		srv = httptest.NewServer(mux)
	}
	return srv
}

// ---- the driver-owned SSE response writer ----
type sseWriter struct {
	hdr     http.Header
	buf     bytes.Buffer
	pending chan []byte
	release chan struct{}
	ctx     context.Context
}

func (w *sseWriter) Header() http.Header         { return w.hdr }
func (w *sseWriter) WriteHeader(int)             {}
func (w *sseWriter) Write(b []byte) (int, error) { return w.buf.Write(b) }
func (w *sseWriter) Flush() {
	data := append([]byte(nil), w.buf.Bytes()...)
	w.buf.Reset()
	select {
	case w.pending <- data:
	case <-w.ctx.Done():
		return
	}
	select {
	case <-w.release:
	case <-w.ctx.Done():
	}
}

// one stream connection of the standby as the active sees it: the real handleSessionStream running
// in a goroutine on a driver-owned writer
type conn struct {
	w         *sseWriter
	cancel    context.CancelFunc
	done      chan struct{}
	inHand    []byte // bytes of the event the stream handler is blocked on (nil = handler idle)
	chanCount int    // messages queued in the client channel behind it
	stuck     bool   // a bounded wait on this handler has expired
}

const stepWait = 3 * time.Second // every wait of the driver on the implementation is bounded

// take waits (bounded) for the handler to hand over the next event; a handler that let one wait
// expire is not waited for again (a lost change costs one bound per connection, not one per step)
func (c *conn) take() []byte {
	if c.stuck {
		select {
		case b := <-c.w.pending:
			return b
		default:
			return nil
		}
	}
	select {
	case b := <-c.w.pending:
		return b
	case <-time.After(stepWait):
		c.stuck = true
		return nil
	}
}
func (c *conn) letGo() {
	d := stepWait
	if c.stuck {
		d = 10 * time.Millisecond
	}
	select {
	case c.w.release <- struct{}{}:
	case <-time.After(d):
		c.stuck = true
	}
}
func (c *conn) end() {
	c.cancel()
	select {
	case <-c.done:
	case <-time.After(stepWait):
	}
}

type world struct {
	aStore, sStore *ha.InMemorySessionStore
	active, stand  *ha.HASyncer
	link           string  // down synced streaming
	cur            *conn   // the standby's current stream
	zombies        []*conn // streams the standby has lost, handler still attached on the active
	nconn          int
}

func sid(id int) string { return fmt.Sprintf("sess-%d", id) }

func (w *world) newActive() {
	w.aStore = ha.NewInMemorySessionStore()
	ac := ha.DefaultSyncConfig()
	ac.NodeID, ac.Role = "node-a", ha.RoleActive
	w.active = ha.NewHASyncer(ac, w.aStore, zap.NewNop())
	w.setHandler(0)
}

// setHandler installs the active's real /ha/sessions handler, or a faulty link in front of it
func (w *world) setHandler(fault int) {
	h := w.active.VerifHandleGetSessions
	srvMu.Lock()
	srvCur = faulty(h, fault)
	srvMu.Unlock()
}

// faulty: 0 = the handler itself; 1 = refused (503); 2 = the real response cut half way through the
// body (the connection is dropped while the full sync is in flight); 3 = a body that is not JSON
func faulty(h http.HandlerFunc, fault int) http.HandlerFunc {
	switch fault {
	case 1:
		return func(rw http.ResponseWriter, r *http.Request) {
			http.Error(rw, "link down", http.StatusServiceUnavailable)
		}
	case 2:
		return func(rw http.ResponseWriter, r *http.Request) {
			rr := httptest.NewRecorder()
			h(rr, r)
			b := rr.Body.Bytes()
			rw.Header().Set("Content-Type", "application/json")
			rw.Header().Set("Content-Length", fmt.Sprint(len(b)))
			rw.Write(b[:len(b)/2])
			if f, ok := rw.(http.Flusher); ok {
				f.Flush()
			}
			panic(http.ErrAbortHandler) // net/http closes the connection without completing the body
		}
	case 3:
		return func(rw http.ResponseWriter, r *http.Request) {
			rw.Header().Set("Content-Type", "application/json")
			rw.Write([]byte(`{"type":"full","sessions":[{"session_id":`))
		}
	}
	return h
}

func newWorld() *world {
	lg := zap.NewNop()
	w := &world{sStore: ha.NewInMemorySessionStore(), link: "down"}
	w.newActive()
	sc := ha.DefaultSyncConfig()
	sc.NodeID, sc.Role = "node-b", ha.RoleStandby
	sc.Partner = &ha.PartnerInfo{NodeID: "node-a", Endpoint: strings.TrimPrefix(server().URL, "http://")}
	sc.RequestTimeout = 10 * time.Second
	w.stand = ha.NewHASyncer(sc, w.sStore, lg)
	return w
}

func (w *world) close() {
	if w.cur != nil {
		w.cur.end()
	}
	for _, z := range w.zombies {
		z.end()
	}
	w.cur, w.zombies = nil, nil
}

func (w *world) disconnect() {
	w.cur.end()
	w.cur = nil
}

// ---- the whole SessionState record as the session value ----
// Every field of ha.SessionState except the key takes one of three values {zero, A, B} (bool: two);
// a record is encoded with two bits per field, in struct order (0 zero, 1 A, 2 B, 3 = the field
// holds something else: only ever produced by a misbehaving implementation). The encoding is driven
// by reflection so that a field added to the struct is covered (or, for an unknown kind, reported)
// without touching the driver; the Model's field list is compared with the struct's in the
// `layout` stream.
var sessType = reflect.TypeOf(ha.SessionState{})

var sizeClass int // of the case in progress

func fieldChoice(i int, f reflect.StructField, d int) (reflect.Value, bool) {
	v := reflect.New(f.Type).Elem()
	if d == 0 {
		return v, true
	}
	switch {
	case f.Type == reflect.TypeOf(time.Time{}):
		v.Set(reflect.ValueOf(time.Unix(int64(1700000000+1000*d+i), 0).UTC()))
	case f.Type.Kind() == reflect.String:
		str := fmt.Sprintf("%s-%c", strings.ToLower(f.Name), 'A'+byte(d-1))
		if d == 2 && sizeClass > 0 && (f.Name == "Username" || f.Name == "QoSProfile") {
			// value B of the long string fields: > 4 KB (a bufio buffer) / > 64 KB (a Scanner token);
			// "<&>" is escaped sixfold by encoding/json
			n := map[int]int{1: 5000, 2: 70000}[sizeClass]
			str += "<&>" + strings.Repeat("x", n)
		}
		v.SetString(str)
	case f.Type.Kind() == reflect.Bool:
		v.SetBool(true)
	case f.Type.Kind() >= reflect.Int && f.Type.Kind() <= reflect.Int64:
		v.SetInt(int64(100*d + i))
	case f.Type.Kind() >= reflect.Uint && f.Type.Kind() <= reflect.Uint64:
		v.SetUint(uint64(100*d + i))
	default:
		return v, false
	}
	return v, true
}

func sameField(a, b reflect.Value) bool {
	if t, ok := a.Interface().(time.Time); ok {
		return t.Equal(b.Interface().(time.Time))
	}
	return a.Interface() == b.Interface()
}

// valueFields: indices of the struct fields other than the key, in struct order
func valueFields() []int {
	var o []int
	for i := 0; i < sessType.NumField(); i++ {
		if sessType.Field(i).Name != "SessionID" {
			o = append(o, i)
		}
	}
	return o
}

// session builds the record encoded by v for session id (the key is the only per-id field)
func session(id int, v int64) *ha.SessionState {
	s := &ha.SessionState{}
	rv := reflect.ValueOf(s).Elem()
	for _, i := range valueFields() {
		d := int(v & 3)
		v >>= 2
		if d == 3 {
			d = 2
		}
		fv, ok := fieldChoice(i, sessType.Field(i), d)
		if !ok {
			panic("SessionState field of unsupported kind: " + sessType.Field(i).Name)
		}
		rv.Field(i).Set(fv)
	}
	s.SessionID = sid(id)
	return s
}

// encode is the inverse; digit 3 for a field that holds none of its three values
func encode(s *ha.SessionState) int64 {
	rv := reflect.ValueOf(s).Elem()
	var v int64
	for k, i := range valueFields() {
		d := 3
		for t := 0; t < 3; t++ {
			fv, _ := fieldChoice(i, sessType.Field(i), t)
			if sameField(rv.Field(i), fv) {
				d = t
				break
			}
		}
		v |= int64(d) << (2 * uint(k))
	}
	return v
}

func canon(v int64) int64 { return encode(session(0, v)) }

func nFields() int { return len(valueFields()) }

func digit(v int64, k int) int64 { return (v >> (2 * uint(k))) & 3 }
func setDigit(v int64, k int, d int64) int64 {
	return v&^(3<<(2*uint(k))) | d<<(2*uint(k))
}

// the record whose fields follow the given digit pattern, repeated
func pattern(ds ...int) int64 {
	var v int64
	for k := 0; k < nFields(); k++ {
		v = setDigit(v, k, int64(ds[k%len(ds)]))
	}
	return canon(v)
}

func rec(v int64) string { return fmt.Sprintf("(U %d)", v) }

const foreign = "Some [888888]" // a session outside the id universe / stored under a wrong key

// table projects a store onto ids 0..nIDs-1 -> encoded FULL record, flagging anything else
func table(st *ha.InMemorySessionStore) string {
	var items []string
	n := 0
	for id := 0; id < nIDs; id++ {
		if s, ok := st.GetSession(sid(id)); ok {
			n++
			if s.SessionID != sid(id) {
				items = append(items, foreign)
			} else {
				items = append(items, "Some "+rec(encode(s)))
			}
		} else {
			items = append(items, "None")
		}
	}
	if st.GetSessionCount() != n {
		items = append(items, foreign)
	}
	return vh.List(items)
}

func recvTable(s *ha.HASyncer) string {
	var items []string
	n := 0
	for id := 0; id < nIDs; id++ {
		if x, ok := s.GetReceivedSession(sid(id)); ok {
			n++
			if x.SessionID != sid(id) {
				items = append(items, foreign)
			} else {
				items = append(items, "Some "+rec(encode(x)))
			}
		} else {
			items = append(items, "None")
		}
	}
	if len(s.GetAllReceivedSessions()) != n {
		items = append(items, foreign)
	}
	return vh.List(items)
}

func coqMsg(m *ha.SyncMessage) string {
	id := -1
	if len(m.Sessions) == 1 {
		fmt.Sscanf(m.Sessions[0].SessionID, "sess-%d", &id)
	}
	switch m.Type {
	case ha.SyncTypeAdd, ha.SyncTypeUpdate:
		return fmt.Sprintf("(MPut %d %s %s %d)", id, vh.Bool(m.Type == ha.SyncTypeUpdate), rec(encode(&m.Sessions[0])), m.SequenceNum)
	case ha.SyncTypeDelete:
		return fmt.Sprintf("(MDel %d %d)", id, m.SequenceNum)
	case ha.SyncTypeHeartbeat:
		return fmt.Sprintf("(MHb %d)", m.SequenceNum)
	}
	return "(MPut 777777 false [] 0)"
}

// what connectToStream does with the bytes of one event
func dataLines(b []byte) [][]byte {
	var out [][]byte
	for _, line := range bytes.SplitAfter(b, []byte("\n")) {
		if bytes.HasPrefix(line, []byte("data: ")) && len(line) > 6 {
			out = append(out, line[6:len(line)-1])
		}
	}
	return out
}

func (w *world) apply(o Op) (op string, res string) {
	res = "RNone"
	switch o.K {
	case "put":
		o.V = canon(o.V)
		op = fmt.Sprintf("Put %d %s", o.ID, rec(o.V))
		s := session(o.ID, o.V)
		typ := ha.SyncTypeAdd
		if _, ok := w.aStore.GetSession(s.SessionID); ok {
			typ = ha.SyncTypeUpdate
		}
		w.aStore.PutSession(s)
		err := w.active.PushChange(typ, s)
		res = fmt.Sprintf("RPush (MPut %d %s %s %d) %s", o.ID, vh.Bool(typ == ha.SyncTypeUpdate), rec(o.V), w.seq(), vh.Bool(err == nil))
	case "del":
		op = fmt.Sprintf("Del %d", o.ID)
		w.aStore.DeleteSession(sid(o.ID))
		err := w.active.PushChange(ha.SyncTypeDelete, &ha.SessionState{SessionID: sid(o.ID)})
		res = fmt.Sprintf("RPush (MDel %d %d) %s", o.ID, w.seq(), vh.Bool(err == nil))
	case "bcast", "hb":
		_, _, _, l0, _ := w.active.VerifQueues()
		var m *ha.SyncMessage
		ms := fmt.Sprintf("(MHb %d)", seqCount[w])
		if o.K == "bcast" {
			op = "Broadcast"
			m = w.active.VerifBroadcastOne()
			if m == nil {
				return op, "RSkip"
			}
			ms = coqMsg(m)
		} else {
			op = "Heartbeat"
			w.active.VerifBroadcastHeartbeat()
		}
		// zombies are broadcast to as well: an idle zombie handler takes the message and blocks for ever
		dz := 0
		for _, z := range w.zombies {
			switch {
			case z.inHand == nil:
				z.inHand = z.take()
			case z.chanCount < ccap-1:
				z.chanCount++
				dz++
			}
		}
		switch {
		case w.link != "streaming":
			res = fmt.Sprintf("RBcast %s BNoClient", ms)
		case w.cur.inHand == nil: // handler idle: it takes the message and blocks in Flush
			w.cur.inHand = w.cur.take()
			if w.cur.inHand != nil {
				res = fmt.Sprintf("RBcast %s BQueued", ms)
			} else { // nobody took it: the stream is not (or no longer) registered
				res = fmt.Sprintf("RBcast %s BDropped", ms)
			}
		default:
			_, _, _, l1, _ := w.active.VerifQueues()
			if l1-dz == l0+1 {
				w.cur.chanCount++
				res = fmt.Sprintf("RBcast %s BQueued", ms)
			} else {
				res = fmt.Sprintf("RBcast %s BDropped", ms)
			}
		}
	case "sync":
		op = "FullSync"
		if w.link == "streaming" {
			return op, "RSkip"
		}
		err := w.stand.VerifPerformFullSync()
		if err == nil {
			w.link = "synced"
		}
		res = "RSync " + vh.Bool(err == nil)
	case "syncfail":
		op = "SyncFail"
		if w.link == "streaming" {
			return op, "RSkip"
		}
		w.setHandler(1 + o.F%3)
		err := w.stand.VerifPerformFullSync()
		w.setHandler(0)
		w.link = "down"
		res = "RSync " + vh.Bool(err == nil)
	case "restart":
		op = "Restart"
		w.close()
		w.active.Stop()
		w.newActive()
		seqCount[w] = 0
		w.link = "down"
	case "attach":
		op = "Attach"
		if w.link != "synced" {
			return op, "RSkip"
		}
		ctx, cancel := context.WithCancel(context.Background())
		c := &conn{w: &sseWriter{hdr: http.Header{}, pending: make(chan []byte), release: make(chan struct{}), ctx: ctx},
			cancel: cancel, done: make(chan struct{})}
		req := httptest.NewRequest("GET", "/ha/sessions/stream", nil).WithContext(ctx)
		w.nconn++
		req.RemoteAddr = fmt.Sprintf("127.0.0.1:%d", 40000+w.nconn) // same host, a new source port per connection
		go func(a *ha.HASyncer) {
			a.VerifHandleSessionStream(c.w, req)
			close(c.done)
		}(w.active)
		// the standby sees the stream connected at the handler's first flush (the initial heartbeat);
		// the handler stays blocked in that flush until the heartbeat is delivered
		c.inHand = c.take()
		w.cur = c
		w.link = "streaming"
	case "deliver":
		op = "Deliver"
		if w.link != "streaming" || w.cur.inHand == nil {
			return op, "RSkip"
		}
		ls := dataLines(w.cur.inHand)
		var m ha.SyncMessage
		if len(ls) != 1 || json.Unmarshal(ls[0], &m) != nil {
			res = "RDeliver (MPut 666666 false [] 0)"
		} else {
			res = "RDeliver " + coqMsg(&m)
		}
		for _, d := range ls {
			w.stand.VerifHandleSSEData(d)
		}
		w.cur.inHand = nil
		w.cur.letGo()
		if w.cur.chanCount > 0 { // the handler takes the next queued message and blocks in Flush again
			w.cur.inHand = w.cur.take()
			w.cur.chanCount--
		}
	case "disc":
		op = "Disconnect"
		switch w.link {
		case "down":
			return op, "RSkip"
		case "streaming":
			w.disconnect()
		}
		w.link = "down"
	case "drop":
		op = "Drop"
		if w.link != "streaming" {
			return op, "RSkip"
		}
		w.zombies = append(w.zombies, w.cur) // the handler stays attached, blocked or idle, nobody reads
		w.cur = nil
		w.link = "down"
	case "reap":
		op = "Reap"
		if len(w.zombies) == 0 {
			return op, "RSkip"
		}
		w.zombies[0].end() // the handler notices at last and exits: its deferred unregistration runs
		w.zombies = w.zombies[1:]
	default:
		panic("bad op " + o.K)
	}
	return
}

func (w *world) seq() uint64 {
	// the sequence number the push just took: read it back from the health endpoint's source of truth
	// is not exported; PushChange numbers consecutively from 1, so the driver counts the pushes.
	seqCount[w]++
	return seqCount[w]
}

var seqCount = map[*world]uint64{}

func (w *world) inHands() (n int) {
	if w.cur != nil && w.cur.inHand != nil {
		n++
	}
	for _, z := range w.zombies {
		if z.inHand != nil {
			n++
		}
	}
	return
}

func (w *world) observe(res string) string {
	pl, _, ncl, cl, _ := w.active.VerifQueues()
	lk := map[string]string{"down": "LDown", "synced": "LSynced", "streaming": "LStreaming"}[w.link]
	return fmt.Sprintf("mkOut %s %s %s %d %d %s (%s) %d", table(w.aStore), table(w.sStore), recvTable(w.stand), pl, cl+w.inHands(), lk, res, ncl)
}

func (w *world) fingerprint() string {
	pl, _, ncl, cl, _ := w.active.VerifQueues()
	return fmt.Sprintf("%s|%s|%s|%d|%d|%d|%d|%d|%s", table(w.aStore), table(w.sStore), recvTable(w.stand), pl, cl, ncl, w.inHands(), len(w.zombies), w.link)
}

func caps() (int, int) {
	w := newWorld()
	defer delete(seqCount, w)
	// attach a client to read the channel capacity
	w.apply(Op{K: "sync"})
	w.apply(Op{K: "attach"})
	_, pc, _, _, cc := w.active.VerifQueues()
	w.close()
	return pc, cc + 1
}

var pcap, ccap int

func expand(ops []Op) []Op {
	var o []Op
	for _, x := range ops {
		n := x.N
		if n <= 0 {
			n = 1
		}
		y := x
		y.N = 0
		for i := 0; i < n; i++ {
			o = append(o, y)
		}
	}
	return o
}

func run(c Case, extraTags ...string) (vh.Case, string) {
	sizeClass = c.Size
	defer func() { sizeClass = 0 }()
	w := newWorld()
	defer delete(seqCount, w)
	var tr []string
	tags := map[string]bool{}
	for _, o := range expand(c.Ops) {
		op, res := w.apply(o)
		tr = append(tr, vh.Pair(op, w.observe(res)))
		tags["op:"+o.K] = true
		switch {
		case strings.Contains(res, "BDropped"):
			tags["client-channel-overflow"] = true
		case strings.HasPrefix(res, "RPush") && strings.HasSuffix(res, "false"):
			tags["pending-queue-overflow"] = true
		case strings.HasPrefix(res, "RDeliver"):
			tags["delivered"] = true
		case res == "RSync true":
			tags["full-sync"] = true
		}
	}
	fp := w.fingerprint()
	w.close()
	var tl []string
	for t := range tags {
		tl = append(tl, t)
	}
	tl = append(tl, extraTags...)
	sort.Strings(tl)
	return vh.Case{Coq: fmt.Sprintf("(Build_config %d %d,\n  %s)", pcap, ccap, vh.List(tr)), Desc: c, Tags: tl}, fp
}

func alphabet(ids, vals int) []Op {
	// value 1: every field non-zero (A); value 2: every other field back to zero, the rest B
	values := []int64{pattern(1), pattern(0, 2), pattern(2, 1, 0)}
	_ = values[2]
	var a []Op
	for id := 0; id < ids; id++ {
		for v := 0; v < vals; v++ {
			a = append(a, Op{K: "put", ID: id, V: values[v]})
		}
		a = append(a, Op{K: "del", ID: id})
	}
	for _, k := range []string{"bcast", "hb", "sync", "syncfail", "attach", "deliver", "disc", "drop", "reap", "restart"} {
		a = append(a, Op{K: k, F: 1}) // syncfail in the exhaustive stream: the body cut half way
	}
	return a
}

// genVal: every field independently zero / A / B; often a neighbour of the previous value with a
// few fields changed (half of the changes reset a field to zero)
func genVal(r *vh.Rng, prev int64) int64 {
	var v int64
	near := prev > 0 && r.Chance(1, 2)
	for k := 0; k < nFields(); k++ {
		d := int64(r.Intn(3))
		if near {
			d = digit(prev, k)
			if r.Chance(1, 5) {
				if d != 0 && r.Bool() {
					d = 0
				} else {
					d = int64(r.Intn(3))
				}
			}
		}
		v = setDigit(v, k, d)
	}
	return canon(v)
}

// symbolic record values in seeds / corpus-style op strings: a = every field A, b = every field B,
// h = every other field zero and the rest B, z = every field zero
func symVal(c byte) int64 {
	switch c {
	case 'a':
		return pattern(1)
	case 'b':
		return pattern(2)
	case 'h':
		return pattern(0, 2)
	case 'z':
		return 0
	}
	panic("bad symbolic value")
}

func parseOps(s string) []Op {
	var o []Op
	for _, t := range strings.Fields(s) {
		var x Op
		switch {
		case strings.HasPrefix(t, "put"):
			x.K = "put"
			var c byte
			fmt.Sscanf(t[3:], "%d=%c", &x.ID, &c)
			x.V = symVal(c)
		case strings.HasPrefix(t, "del") && t != "deliver":
			x.K = "del"
			fmt.Sscanf(t[3:], "%d", &x.ID)
		default:
			x.K = t
		}
		o = append(o, x)
	}
	return o
}

var seedPrefixes = []string{"sync attach", "put0=a bcast sync attach", "put0=a put1=a sync attach disc", "sync", "put0=a sync attach put0=h bcast"}

// breadth-first exploration with implementation-state fingerprints (see harness/c14)
func explore(depth int, alpha []Op, seeds []string) []vh.Case {
	seen := map[string]bool{}
	var frontier [][]Op
	for _, sd := range append([]string{""}, seeds...) {
		p := parseOps(sd)
		_, fp := run(Case{Ops: p})
		if !seen[fp] {
			seen[fp] = true
			frontier = append(frontier, p)
		}
	}
	var out []vh.Case
	for d := 1; d <= depth && len(frontier) > 0; d++ {
		var next [][]Op
		for _, p := range frontier {
			for _, e := range alpha {
				seq := append(append([]Op(nil), p...), e)
				cs, fp := run(Case{Ops: seq}, fmt.Sprintf("exhaustive-depth:%d", d))
				out = append(out, cs)
				if !seen[fp] {
					seen[fp] = true
					next = append(next, seq)
				}
			}
		}
		frontier = next
	}
	return out
}

func genRandom(r *vh.Rng, maxLen int, guarded bool) Case {
	n := 4 + r.Intn(maxLen)
	var ops []Op
	link := "down"
	last := map[int]int64{}
	for len(ops) < n {
		switch x := r.Intn(30); {
		case x >= 28:
			ops = append(ops, Op{K: "reap"})
		case x >= 26:
			ops = append(ops, Op{K: "drop"})
			link = "down"
		case x == 24:
			ops = append(ops, Op{K: "syncfail", F: r.Intn(3)})
			if link != "streaming" {
				link = "down"
			}
		case x == 25:
			if r.Chance(1, 2) {
				continue
			}
			ops = append(ops, Op{K: "restart"})
			link = "down"
			last = map[int]int64{}
		case x < 6:
			id := r.Intn(nIDs)
			last[id] = genVal(r, last[id])
			ops = append(ops, Op{K: "put", ID: id, V: last[id]})
		case x < 9:
			ops = append(ops, Op{K: "del", ID: r.Intn(nIDs)})
		case x < 13:
			if guarded && link == "synced" {
				continue // a broadcast between full sync and attach may lose a change
			}
			ops = append(ops, Op{K: "bcast"})
		case x < 14:
			ops = append(ops, Op{K: "hb"})
		case x < 16:
			ops = append(ops, Op{K: "sync"})
			if link != "streaming" {
				link = "synced"
			}
		case x < 19:
			ops = append(ops, Op{K: "attach"})
			if link == "synced" {
				link = "streaming"
			}
		case x < 22:
			ops = append(ops, Op{K: "deliver"})
		case x < 24:
			ops = append(ops, Op{K: "disc"})
			link = "down"
		}
	}
	if r.Chance(1, 2) { // drive to quiescence: reconnect if needed, flush everything
		if link == "down" {
			ops = append(ops, Op{K: "sync"})
			link = "synced"
		}
		if link == "synced" {
			ops = append(ops, Op{K: "attach"})
		}
		if r.Chance(1, 3) { // a zombie's late exit must not take the live stream with it
			ops = append(ops, Op{K: "reap"}, Op{K: "reap"})
		}
		for i := 0; i < n+2; i++ {
			ops = append(ops, Op{K: "bcast"}, Op{K: "deliver"})
		}
		ops = append(ops, Op{K: "deliver"}, Op{K: "deliver"})
	}
	c := Case{Ops: ops}
	if r.Chance(1, 4) {
		c.Size = 1 + r.Intn(2)
	}
	return c
}

// ---------------------------------------------------------------- end-to-end stream
// Real standbyLoop (Start() on the standby), real connectToStream, real broadcastLoop, real HTTP
// over loopback. The driver only (a) plays the session manager, (b) cuts the link (503 gate +
// CloseClientConnections) and restores it, (c) waits with a bound for the pair to go quiet and
// then reads both stores. FullSyncInterval stays at its default: a reconnect must full-sync
// however recently the last one ran.

type e2eWorld struct {
	aStore, sStore *ha.InMemorySessionStore
	active, stand  *ha.HASyncer
	srv            *httptest.Server
	gateMu         sync.Mutex
	down           bool
	fault          int // 0 none; else the /ha/sessions handler is faulty(…, fault): full syncs fail
	faultsServed   int
	link           string
	hb             bool
	streams        []*held       // every stream handler started on the active, oldest first
	gateNext       chan struct{} // non-nil: the next stream handler is held after its first flush until this closes
}

// held: one real handleSessionStream invocation behind the loopback server, under the driver's control:
// it can be turned into a zombie (the standby's connection is gone, the handler does not notice:
// its request context is not the connection's, its writes are swallowed as a half-open TCP
// connection's kernel buffer would) and it can be held right after its first flush.
type held struct {
	ctx          context.Context
	cancel       context.CancelFunc
	zombie       atomic.Bool
	firstFlushed chan struct{}
	gate         chan struct{}
	exited       chan struct{}
}
type heldWriter struct {
	http.ResponseWriter
	h *held
	n int
}

func (hw *heldWriter) Write(b []byte) (int, error) {
	if hw.h.zombie.Load() {
		return len(b), nil
	}
	return hw.ResponseWriter.Write(b)
}
func (hw *heldWriter) Flush() {
	if hw.h.zombie.Load() {
		return
	}
	hw.ResponseWriter.(http.Flusher).Flush()
	hw.n++
	if hw.n == 1 {
		close(hw.h.firstFlushed)
		if hw.h.gate != nil {
			select {
			case <-hw.h.gate:
			case <-hw.h.ctx.Done():
			case <-time.After(10 * time.Second):
			}
		}
	}
}

func (w *e2eWorld) serveStream(a *ha.HASyncer, rw http.ResponseWriter, r *http.Request) {
	ctx, cancel := context.WithCancel(context.Background())
	h := &held{ctx: ctx, cancel: cancel, firstFlushed: make(chan struct{}), exited: make(chan struct{})}
	w.gateMu.Lock()
	h.gate, w.gateNext = w.gateNext, nil
	w.streams = append(w.streams, h)
	w.gateMu.Unlock()
	go func() { // the connection's end ends the handler, as net/http does — unless it is a zombie
		select {
		case <-r.Context().Done():
			if !h.zombie.Load() {
				cancel()
			}
		case <-ctx.Done():
		}
	}()
	a.VerifHandleSessionStream(&heldWriter{ResponseWriter: rw, h: h}, r.WithContext(ctx))
	cancel()
	close(h.exited)
}

func (w *e2eWorld) liveStream() *held {
	w.gateMu.Lock()
	defer w.gateMu.Unlock()
	for i := len(w.streams) - 1; i >= 0; i-- {
		select {
		case <-w.streams[i].exited:
		default:
			if !w.streams[i].zombie.Load() {
				return w.streams[i]
			}
		}
	}
	return nil
}

func (w *e2eWorld) newActive() {
	ac := ha.DefaultSyncConfig()
	ac.NodeID, ac.Role = "node-a", ha.RoleActive
	if w.hb { // heartbeats interleave with the changes in the real broadcastLoop
		ac.HeartbeatInterval = 3 * time.Millisecond
	}
	st := ha.NewInMemorySessionStore()
	a := ha.NewHASyncer(ac, st, zap.NewNop())
	a.VerifStartBroadcastLoop()
	w.gateMu.Lock()
	w.aStore, w.active = st, a
	w.gateMu.Unlock()
}

func newE2E(hb bool) *e2eWorld {
	lg := zap.NewNop()
	w := &e2eWorld{sStore: ha.NewInMemorySessionStore(), link: "down", down: true, hb: hb}
	w.newActive()
	gate := func(stream bool) http.HandlerFunc {
		return func(rw http.ResponseWriter, r *http.Request) {
			w.gateMu.Lock()
			d, f, a := w.down, w.fault, w.active
			if !d && f != 0 && !stream {
				w.faultsServed++
			}
			w.gateMu.Unlock()
			switch {
			case d:
				http.Error(rw, "link down", http.StatusServiceUnavailable)
			case stream:
				w.serveStream(a, rw, r)
			default:
				faulty(a.VerifHandleGetSessions, f)(rw, r)
			}
		}
	}
	mux := http.NewServeMux()
	mux.HandleFunc("/ha/sessions", gate(false))
	mux.HandleFunc("/ha/sessions/stream", gate(true))
	w.srv = httptest.NewServer(mux)
	w.srv.Config.ErrorLog = log.New(io.Discard, "", 0) // the aborted handler of a cut full sync is expected
	sc := ha.DefaultSyncConfig() // FullSyncInterval = 5 min (default), not shortened
	sc.NodeID, sc.Role = "node-b", ha.RoleStandby
	sc.Partner = &ha.PartnerInfo{NodeID: "node-a", Endpoint: strings.TrimPrefix(w.srv.URL, "http://")}
	w.stand = ha.NewHASyncer(sc, w.sStore, lg)
	w.stand.VerifSetBackoff(5*time.Millisecond, 20*time.Millisecond)
	if err := w.stand.Start(); err != nil { // the real standbyLoop; the link is still down
		panic(err)
	}
	return w
}

func (w *e2eWorld) close() {
	w.gateMu.Lock()
	w.down = true
	for _, h := range w.streams {
		h.cancel()
	}
	w.gateMu.Unlock()
	done := make(chan struct{})
	go func() { w.stand.Stop(); close(done) }()
	w.srv.CloseClientConnections()
	select {
	case <-done:
	case <-time.After(5 * time.Second):
	}
	w.active.Stop()
	w.srv.Close()
}

func poll(bound time.Duration, f func() bool) bool {
	dl := time.Now().Add(bound)
	for {
		if f() {
			return true
		}
		if time.Now().After(dl) {
			return false
		}
		time.Sleep(300 * time.Microsecond)
	}
}

func (w *e2eWorld) quiet() {
	if w.link == "streaming" {
		poll(1500*time.Millisecond, func() bool {
			pl, _, _, cl, _ := w.active.VerifQueues()
			return pl == 0 && cl == 0 && table(w.aStore) == table(w.sStore)
		})
	} else {
		poll(1500*time.Millisecond, func() bool { pl, _, _, _, _ := w.active.VerifQueues(); return pl == 0 })
	}
}

// apply runs one end-to-end action; returns the Model operations it stands for
func (w *e2eWorld) apply(o Op) []string {
	switch o.K {
	case "put", "del":
		var m string
		if o.K == "put" {
			o.V = canon(o.V)
			s := session(o.ID, o.V)
			typ := ha.SyncTypeAdd
			if _, ok := w.aStore.GetSession(s.SessionID); ok {
				typ = ha.SyncTypeUpdate
			}
			w.aStore.PutSession(s)
			w.active.PushChange(typ, s)
			m = fmt.Sprintf("Put %d %s", o.ID, rec(o.V))
		} else {
			w.aStore.DeleteSession(sid(o.ID))
			w.active.PushChange(ha.SyncTypeDelete, &ha.SessionState{SessionID: sid(o.ID)})
			m = fmt.Sprintf("Del %d", o.ID)
		}
		if w.link == "streaming" {
			return []string{m, "Broadcast", "Deliver"}
		}
		return []string{m, "Broadcast"}
	case "disc":
		if w.link == "down" {
			return nil
		}
		w.gateMu.Lock()
		w.down = true
		w.gateMu.Unlock()
		w.srv.CloseClientConnections()
		poll(3*time.Second, func() bool { return !w.stand.IsConnected() && w.liveStream() == nil })
		w.link = "down"
		return []string{"Disconnect"}
	case "restart":
		// the active process goes away and comes back with an empty table and sequence numbers
		// from zero; the link stays cut until the next reconnect so that the order of events is fixed
		w.gateMu.Lock()
		w.down = true
		old := w.active
		w.gateMu.Unlock()
		w.srv.CloseClientConnections()
		old.Stop()
		w.gateMu.Lock()
		for _, h := range w.streams { // zombies of the old process die with it
			h.cancel()
		}
		w.streams = nil
		w.gateMu.Unlock()
		w.newActive()
		poll(3*time.Second, func() bool { return !w.stand.IsConnected() })
		w.link = "down"
		return []string{"Restart"}
	case "drop":
		// the standby loses the stream; the active's handler does not notice (half-open connection)
		if w.link != "streaming" {
			return nil
		}
		if h := w.liveStream(); h != nil {
			h.zombie.Store(true)
		}
		w.gateMu.Lock()
		w.down = true
		w.gateMu.Unlock()
		w.srv.CloseClientConnections()
		poll(3*time.Second, func() bool { return !w.stand.IsConnected() })
		w.link = "down"
		return []string{"Drop"}
	case "reap":
		// the oldest zombie handler notices at last and exits (its deferred unregistration runs)
		w.gateMu.Lock()
		var z *held
		for _, h := range w.streams {
			select {
			case <-h.exited:
			default:
				if h.zombie.Load() && z == nil {
					z = h
				}
			}
		}
		w.gateMu.Unlock()
		if z == nil {
			return nil
		}
		z.cancel()
		select {
		case <-z.exited:
		case <-time.After(3 * time.Second):
		}
		return []string{"Reap"}
	case "reconnect", "cutsync":
		if w.link != "down" {
			return nil
		}
		poll(1500*time.Millisecond, func() bool { pl, _, _, _, _ := w.active.VerifQueues(); return pl == 0 })
		pre := []string{}
		if o.K == "cutsync" {
			// the link comes back but the first full syncs fail in flight (refused / body cut half
			// way / garbage); the standby's own loop must retry the FULL SYNC, not go on to the stream
			w.gateMu.Lock()
			w.fault, w.faultsServed, w.down = 1+o.F%3, 0, false
			w.gateMu.Unlock()
			poll(3*time.Second, func() bool {
				w.gateMu.Lock()
				defer w.gateMu.Unlock()
				return w.faultsServed >= 2
			})
			w.gateMu.Lock()
			w.fault = 0
			w.gateMu.Unlock()
			pre = []string{"SyncFail"}
		}
		var gate chan struct{}
		w.gateMu.Lock()
		if o.G {
			gate = make(chan struct{})
			w.gateNext = gate
		}
		w.down = false
		w.gateMu.Unlock()
		// the standby's own loop notices: what it does on (re)connect is the code under test
		if !o.G {
			if poll(5*time.Second, func() bool { return w.stand.IsConnected() && w.liveStream() != nil }) {
				w.link = "streaming"
			}
			return append(pre, "FullSync", "Attach", "Deliver") // as standbyLoop does; Deliver: the initial heartbeat
		}
		// gated: the handler is held right after its first flush — the instant the standby sees the
		// stream connected; a change pushed and broadcast NOW must reach it
		if poll(5*time.Second, func() bool {
			h := w.liveStream()
			if h == nil || !w.stand.IsConnected() {
				return false
			}
			select {
			case <-h.firstFlushed:
				return true
			default:
				return false
			}
		}) {
			w.link = "streaming"
		}
		v := canon(o.V)
		sess := session(o.ID, v)
		typ := ha.SyncTypeAdd
		if _, ok := w.aStore.GetSession(sess.SessionID); ok {
			typ = ha.SyncTypeUpdate
		}
		w.aStore.PutSession(sess)
		w.active.PushChange(typ, sess)
		poll(1500*time.Millisecond, func() bool { pl, _, _, _, _ := w.active.VerifQueues(); return pl == 0 })
		close(gate)
		return append(pre, "FullSync", "Attach", fmt.Sprintf("Put %d %s", o.ID, rec(v)), "Broadcast", "Deliver", "Deliver")
	}
	panic("bad e2e op " + o.K)
}

func runE2E(c Case, extraTags ...string) vh.Case {
	sizeClass = c.Size
	defer func() { sizeClass = 0 }()
	w := newE2E(c.HB)
	var gs []string
	tags := map[string]bool{}
	outageChange := false
	for _, o := range c.Ops {
		ops := w.apply(o)
		w.quiet()
		pl, _, _, cl, _ := w.active.VerifQueues()
		for i := 0; i < 50 && cl != 0; i++ { // a heartbeat in flight: it does not touch the tables
			time.Sleep(200 * time.Microsecond)
			pl, _, _, cl, _ = w.active.VerifQueues()
		}
		lk := "LDown"
		if w.stand.IsConnected() {
			lk = "LStreaming"
		}
		gs = append(gs, fmt.Sprintf("(%s, (%s, %s, %d, %d, %s))", vh.List(ops), table(w.aStore), table(w.sStore), pl, cl, lk))
		tags["e2e:"+o.K] = true
		if c.HB {
			tags["e2e:heartbeats-every-3ms"] = true
		}
		if (o.K == "put" || o.K == "del") && w.link == "down" {
			outageChange = true
		}
		if o.K == "reconnect" && outageChange {
			tags["reconnect-after-changes-during-outage"] = true
		}
	}
	w.close()
	var tl []string
	for t := range tags {
		tl = append(tl, t)
	}
	tl = append(tl, extraTags...)
	sort.Strings(tl)
	return vh.Case{Coq: fmt.Sprintf("(Build_config %d %d,\n  %s)", pcap, ccap, vh.List(gs)), Desc: c, Tags: tl}
}

func genE2E(r *vh.Rng) Case {
	c := Case{E2E: true, HB: r.Bool()}
	if r.Chance(1, 2) {
		c.Size = 1 + r.Intn(2)
	}
	last := map[int]int64{}
	chg := func() {
		if r.Chance(1, 3) {
			c.Ops = append(c.Ops, Op{K: "del", ID: r.Intn(nIDs)})
		} else {
			id := r.Intn(nIDs)
			last[id] = genVal(r, last[id])
			c.Ops = append(c.Ops, Op{K: "put", ID: id, V: last[id]})
		}
	}
	zombies := 0
	up := func() { // the link comes back: one time in three the first full syncs are cut in flight
		switch x := r.Intn(6); {
		case x < 2:
			c.Ops = append(c.Ops, Op{K: "cutsync", F: r.Intn(3)})
		case x < 4: // a change lands in the window between the stream's first flush and the handler's next step
			id := r.Intn(nIDs)
			last[id] = genVal(r, last[id])
			c.Ops = append(c.Ops, Op{K: "reconnect", G: true, ID: id, V: last[id]})
		default:
			c.Ops = append(c.Ops, Op{K: "reconnect"})
		}
		for ; zombies > 0 && r.Chance(2, 3); zombies-- { // the old handler exits AFTER the new stream attached
			c.Ops = append(c.Ops, Op{K: "reap"})
			chg()
		}
	}
	for k := r.Intn(3); k > 0; k-- {
		chg()
	}
	up()
	for round := 1 + r.Intn(3); round > 0; round-- {
		for k := r.Intn(4); k > 0; k-- {
			chg()
		}
		if r.Chance(1, 4) { // the active restarts (empty table, sequence numbers from zero)
			c.Ops = append(c.Ops, Op{K: "restart"})
			last = map[int]int64{}
			for k := r.Intn(3); k > 0; k-- { // 0: the standby meets an EMPTY snapshot
				chg()
			}
			zombies = 0
		} else {
			if r.Bool() {
				c.Ops = append(c.Ops, Op{K: "drop"})
				zombies++
			} else {
				c.Ops = append(c.Ops, Op{K: "disc"})
			}
			for k := 1 + r.Intn(3); k > 0; k-- { // changes during the outage (deletes matter most)
				chg()
			}
		}
		up()
		for k := r.Intn(3); k > 0; k-- {
			chg()
		}
	}
	return c
}

// ---------------------------------------------------------------- per-field stream
// For every field of the record (exhaustively) and both non-zero values: the field goes back to its
// zero value in a stream update, takes the other non-zero value, is reset again, is reset by a full
// sync; an add after a delete carries only that field; an update clears the whole record.
func genFields() []Case {
	var cs []Case
	for k := 0; k < nFields(); k++ {
		for d := 1; d <= 2; d++ {
			base := pattern(d)
			zeroed := setDigit(base, k, 0)
			other := canon(setDigit(base, k, int64(3-d)))
			only := canon(setDigit(0, k, int64(d)))
			put := func(v int64) []Op { return []Op{{K: "put", ID: 0, V: v}, {K: "bcast"}, {K: "deliver"}} }
			ops := []Op{{K: "put", ID: 0, V: base}, {K: "bcast"}, {K: "sync"}, {K: "attach"}, {K: "deliver"}}
			ops = append(ops, put(zeroed)...)
			ops = append(ops, put(other)...)
			ops = append(ops, put(zeroed)...)
			ops = append(ops, put(base)...)
			ops = append(ops, Op{K: "disc"}, Op{K: "put", ID: 0, V: zeroed}, Op{K: "bcast"}, Op{K: "sync"}, Op{K: "attach"}, Op{K: "deliver"})
			ops = append(ops, Op{K: "del", ID: 0}, Op{K: "bcast"}, Op{K: "deliver"})
			ops = append(ops, put(only)...)
			ops = append(ops, put(base)...)
			ops = append(ops, put(0)...)
			cs = append(cs, Case{Ops: ops, Size: (k + d) % 3})
		}
	}
	return cs
}

// the struct's field list as encoding/json sees it, for the `layout` stream
func layoutCoq() string {
	one := func(f reflect.StructField) string {
		tag := f.Tag.Get("json")
		parts := strings.Split(tag, ",")
		name, omit, ser := f.Name, false, f.IsExported()
		if tag == "-" {
			ser = false
		} else if parts[0] != "" {
			name = parts[0]
		}
		for _, p := range parts[1:] {
			if p == "omitempty" {
				omit = true
			}
		}
		kind := "KOther"
		switch {
		case f.Type == reflect.TypeOf(time.Time{}):
			kind = "KTime"
		case f.Type.Kind() == reflect.String:
			kind = "KString"
		case f.Type.Kind() == reflect.Bool:
			kind = "KBool"
		case f.Type.Kind() >= reflect.Int && f.Type.Kind() <= reflect.Int64:
			kind = "KInt"
		case f.Type.Kind() >= reflect.Uint && f.Type.Kind() <= reflect.Uint64:
			kind = "KUint"
		}
		return fmt.Sprintf("mkF %q %q %v %v %s", f.Name, name, omit, ser, kind)
	}
	key := `mkF "<none>" "" false false KOther`
	var rest []string
	for i := 0; i < sessType.NumField(); i++ {
		if sessType.Field(i).Name == "SessionID" {
			key = one(sessType.Field(i))
		} else {
			rest = append(rest, one(sessType.Field(i)))
		}
	}
	return fmt.Sprintf("(%s,\n  %s)", key, vh.List(rest))
}

const layoutHeader = `From Coq Require Import NArith List String. Import ListNotations.
From Verif Require Import Model.HaSyncFields Model.HaSyncCheck.
Local Open Scope string_scope.
Definition cases : list (fspec * list fspec) := [
`
const layoutFooter = `
].
Definition R := Eval vm_compute in run_layout cases.
Print R.
`

const e2eHeader = `From Coq Require Import NArith List. Import ListNotations.
From Verif Require Import Model.HaSync Model.HaSyncSpec Model.HaSyncCheck.
Local Open Scope N_scope.
Definition cases : list e2e_case := [
`
const e2eFooter = `
].
Definition R := Eval vm_compute in run_e2e_cases cases.
Print R.
`

const header = `From Coq Require Import NArith List. Import ListNotations.
From Verif Require Import Model.HaSync Model.HaSyncSpec Model.HaSyncCheck.
Local Open Scope N_scope.
Definition cases : list case := [
`
const footer = `
].
Definition R := Eval vm_compute in run_cases cases.
Print R.
`

func main() {
	cfg := vh.ParseFlags()
	defer func() {
		if srv != nil {
			srv.Close()
		}
	}()
	pcap, ccap = caps()
	if cfg.Replay != "" {
		var c Case
		if err := vh.LoadReplay(cfg.Replay, &c); err != nil {
			panic(err)
		}
		if c.E2E {
			vh.Emit(cfg, "e2e", e2eHeader, e2eFooter, []vh.Case{runE2E(c)}, nil)
			return
		}
		cs, _ := run(c)
		vh.Emit(cfg, "cases", header, footer, []vh.Case{cs}, nil)
		return
	}
	var corpus, e2e []vh.Case
	for _, f := range vh.CorpusFiles(cfg) {
		if strings.HasSuffix(f, "-heavy.json") && !cfg.Thorough() {
			continue // thousands of operations: thorough tier only
		}
		var c Case
		if err := vh.LoadReplay(f, &c); err != nil {
			panic(err)
		}
		if c.E2E {
			e2e = append(e2e, runE2E(c, "corpus"))
			continue
		}
		cs, _ := run(c, "corpus")
		corpus = append(corpus, cs)
	}
	if len(corpus) > 0 {
		vh.Emit(cfg, "corpus", header, footer, corpus, nil)
	}
	vh.Emit(cfg, "layout", layoutHeader, layoutFooter, []vh.Case{{Coq: layoutCoq(), Desc: Case{}, Tags: []string{"layout"}}},
		map[string]interface{}{"note": "ha.SessionState as compiled (reflection: name, JSON name, omitempty, serialised, kind per field) against the generated field list the Model is built on"})
	var fcs []vh.Case
	for _, c := range genFields() {
		cs, _ := run(c, "per-field")
		fcs = append(fcs, cs)
	}
	vh.Emit(cfg, "fields", header, footer, fcs, map[string]interface{}{"exhaustive": true,
		"exhaustive_note": "every field of the record x both non-zero values: reset to zero by a stream update, changed, reset again, reset across a full sync, carried alone by an add after a delete, whole record cleared by an update"})
	depth, nrand, maxLen := 2, 120, 16
	if cfg.Thorough() {
		depth, nrand, maxLen = 4, 2000, 40
	}
	ex := explore(depth, alphabet(2, 2), seedPrefixes)
	vh.Emit(cfg, "exhaustive", header, footer, ex, map[string]interface{}{"exhaustive": true,
		"exhaustive_note": fmt.Sprintf("breadth-first over the 16-operation alphabet (2 ids x 2 full-record values: all fields non-zero; every other field reset to zero) to depth %d from the initial state and %d seeded states; a sequence is extended only when it reaches a new implementation-state fingerprint (both stores, received map, queue lengths, link)", depth, len(seedPrefixes)),
		"pending_cap":     pcap, "client_cap_plus_in_hand": ccap})
	r := vh.NewRng(cfg.Seed)
	var cases, guarded []vh.Case
	for i := 0; i < nrand; i++ {
		cs, _ := run(genRandom(r.Fork(), maxLen, false), "random")
		cases = append(cases, cs)
	}
	vh.Emit(cfg, "cases", header, footer, cases, nil)
	for i := 0; i < nrand; i++ {
		cs, _ := run(genRandom(r.Fork(), maxLen, true), "guarded")
		guarded = append(guarded, cs)
	}
	ne2e := 30
	if cfg.Thorough() {
		ne2e = 300
	}
	for i := 0; i < ne2e; i++ {
		e2e = append(e2e, runE2E(genE2E(r.Fork()), "e2e-random"))
	}
	vh.Emit(cfg, "e2e", e2eHeader, e2eFooter, e2e, map[string]interface{}{"note": "end-to-end: real standbyLoop/connectToStream/broadcastLoop over loopback HTTP (FullSyncInterval at its default), link cut and restored by the driver, changes during the outage, stores compared at bounded-poll quiescence"})
	vh.Emit(cfg, "guarded", header, footer, guarded, map[string]interface{}{"note": "no broadcast between full sync and attach, no overflow: inside the guard of the _partial theorems"})
}
