// C11 correspondence driver: the real pppoe.LCPStateMachine / IPCPStateMachine / IPV6CPStateMachine
// against Model/Fsm.v instantiated with Lcp.v / Ipcp.v / Ipv6cp.v.
//
// The machines are driven through Up/Down/Open/Close/ReceivePacket/SendEchoRequest; the restart
// timer (time.AfterFunc, one hour so that it never fires by itself) is delivered through the verif
// hook VerifTimeout(), either while the timer is current (regular expiry) or after the code has
// stopped / replaced it (the expiry that lost the race against Stop()).  crypto/rand.Reader is
// replaced by the byte stream of the case, so magic numbers and interface identifiers are an
// explicit oracle shared with the Model.
package main

import (
	crand "crypto/rand"
	"encoding/binary"
	"fmt"
	"net"
	"sort"
	"strings"
	"time"

	"verifharness/vh"

	"github.com/codelaboratoryltd/bng/pkg/pppoe"
	"go.uber.org/zap"
)

// ---------------------------------------------------------------- case description (replayable)

type Ev struct {
	K string `json:"k"`           // up down open close recv fire echo
	D []byte `json:"d,omitempty"` // recv: raw packet
	T int    `json:"t,omitempty"` // fire: timer token (n-th timer started, 1-based)
	A string `json:"a,omitempty"` // abstract kind (tag only)
}

type Case struct {
	Proto string `json:"proto"` // lcp ipcp ipv6cp
	Magic uint32 `json:"magic,omitempty"`
	MRU   uint16 `json:"mru,omitempty"`
	Auth  uint16 `json:"auth,omitempty"`
	Chap  uint8  `json:"chap,omitempty"`
	PFC   bool   `json:"pfc,omitempty"`
	ACFC  bool   `json:"acfc,omitempty"`
	Max   int    `json:"max"` // MaxConfigure / MaxRetransmit
	Local []byte `json:"local,omitempty"`
	Peer  []byte `json:"peer,omitempty"`
	DNS1  []byte `json:"dns1,omitempty"`
	DNS2  []byte `json:"dns2,omitempty"`
	IfID  uint64 `json:"ifid,omitempty"`
	Rng   []byte `json:"rng,omitempty"`
	Live  bool   `json:"live,omitempty"`
	Evs   []Ev   `json:"evs"`
}

// ---------------------------------------------------------------- deterministic crypto/rand

type detReader struct{ buf []byte }

func (d *detReader) Read(p []byte) (int, error) {
	for i := range p {
		if len(d.buf) > 0 {
			p[i] = d.buf[0]
			d.buf = d.buf[1:]
		} else {
			p[i] = 0
		}
	}
	return len(p), nil
}

// ---------------------------------------------------------------- the real machines

type machine interface {
	Up()
	Down()
	Open()
	Close()
	ReceivePacket([]byte) error
	VerifTimeout()
	VerifSnapshot() pppoe.VerifFSMSnapshot
}

type sentPkt struct {
	code, id byte
	length   uint16
	data     []byte
}

type runner struct {
	c     Case
	m     machine
	lcp   *pppoe.LCPStateMachine
	sent  []sentPkt
	tok   int
	pend  []int
	snap  pppoe.VerifFSMSnapshot
	we    bool
	peer  bool
	trace []string // Coq (ev, out) pairs
	tags  map[string]bool
	bad   string
}

var nop = zap.NewNop()

func newRunner(c Case) *runner {
	r := &runner{c: c, tags: map[string]bool{}}
	crand.Reader = &detReader{buf: append([]byte(nil), c.Rng...)}
	send := func(proto uint16, data []byte) {
		want := map[string]uint16{"lcp": pppoe.ProtocolLCP, "ipcp": pppoe.ProtocolIPCP, "ipv6cp": pppoe.ProtocolIPv6CP}[c.Proto]
		if proto != want {
			r.bad = fmt.Sprintf("packet sent with protocol %#x", proto)
		}
		p := sentPkt{}
		if len(data) >= 4 {
			p.code, p.id, p.length = data[0], data[1], binary.BigEndian.Uint16(data[2:4])
			p.data = append([]byte(nil), data[4:]...)
		} else {
			r.bad = "short packet sent"
		}
		r.sent = append(r.sent, p)
	}
	switch c.Proto {
	case "lcp":
		cfg := pppoe.LCPConfig{MRU: c.MRU, MagicNumber: c.Magic, AuthProtocol: c.Auth, CHAPAlgorithm: c.Chap,
			PFC: c.PFC, ACFC: c.ACFC, MaxConfigure: c.Max, RestartTimer: time.Hour, MaxRetransmit: 10, MaxTerminate: 2, MaxFailure: 5}
		l, err := pppoe.NewLCPStateMachine(cfg, send, nop)
		if err != nil {
			panic(err)
		}
		r.m, r.lcp = l, l
	case "ipcp":
		ip := func(b []byte) net.IP {
			if len(b) == 0 {
				return nil
			}
			return net.IP(append([]byte(nil), b...))
		}
		cfg := pppoe.IPCPConfig{LocalIP: ip(c.Local), PeerIP: ip(c.Peer), PrimaryDNS: ip(c.DNS1), SecondaryDNS: ip(c.DNS2),
			MaxRetransmit: c.Max, RestartTimer: time.Hour}
		r.m = pppoe.NewIPCPStateMachine(cfg, "verif", send, nop)
	case "ipv6cp":
		cfg := pppoe.IPV6CPConfig{LocalInterfaceID: c.IfID, MaxRetransmit: c.Max, RestartTimer: time.Hour}
		v, err := pppoe.NewIPV6CPStateMachine(cfg, send, nop)
		if err != nil {
			panic(err)
		}
		r.m = v
	default:
		panic("proto " + c.Proto)
	}
	r.snap = r.m.VerifSnapshot()
	return r
}

func (r *runner) pending(t int) bool {
	for _, x := range r.pend {
		if x == t {
			return true
		}
	}
	return false
}
func (r *runner) freshTok() int { // current token if it can still expire regularly, else 0
	if r.snap.TimerArmed && r.tok > 0 && r.pending(r.tok) {
		return r.tok
	}
	return 0
}
func (r *runner) staleTok() int {
	f := r.freshTok()
	for _, x := range r.pend {
		if x != f {
			return x
		}
	}
	return 0
}

func zstr(v int) string { return fmt.Sprintf("(%d)%%Z", v) }

// apply executes one event on the real machine and appends the (ev, out) pair to the trace.
func (r *runner) apply(e Ev) {
	r.sent = nil
	errc := 0
	func() {
		defer func() {
			if x := recover(); x != nil {
				errc = 2
			}
		}()
		switch e.K {
		case "up":
			r.m.Up()
		case "down":
			r.m.Down()
		case "open":
			r.m.Open()
		case "close":
			r.m.Close()
		case "recv":
			if err := r.m.ReceivePacket(e.D); err != nil {
				errc = 1
			}
		case "fire":
			if r.pending(e.T) { // an expiry can be delivered once per started timer
				for i, x := range r.pend {
					if x == e.T {
						r.pend = append(r.pend[:i:i], r.pend[i+1:]...)
						break
					}
				}
				r.m.VerifTimeout()
			}
		case "echo":
			if r.lcp != nil {
				r.lcp.SendEchoRequest()
			}
		default:
			panic("event " + e.K)
		}
	}()
	var coqev string
	switch e.K {
	case "up":
		coqev = "EUp"
	case "down":
		coqev = "EDown"
	case "open":
		coqev = "EOpen"
	case "close":
		coqev = "EClose"
	case "recv":
		coqev = "ERecv " + vh.Bytes(e.D)
	case "fire":
		coqev = fmt.Sprintf("EFire %d", e.T)
	case "echo":
		coqev = "EEcho"
	}
	// harness-side bookkeeping (timer tokens; ghost bits for fingerprints only)
	if e.K == "recv" && len(e.D) >= 4 {
		if e.D[0] == 2 && e.D[1] == r.snap.LastIdentifier {
			r.peer = true
		}
	}
	var pk []string
	for _, p := range r.sent {
		if p.code == 1 || p.code == 5 {
			r.tok++
			r.pend = append([]int{r.tok}, r.pend...)
		}
		if p.code == 1 {
			r.peer = false
		}
		if e.K == "recv" && len(e.D) >= 4 && e.D[0] == 1 && (p.code == 2 || p.code == 3 || p.code == 4) {
			r.we = p.code == 2
		}
		pk = append(pk, fmt.Sprintf("mkpkt %d %d %d %s", p.code, p.id, p.length, vh.Bytes(p.data)))
	}
	r.snap = r.m.VerifSnapshot()
	s := r.snap
	out := fmt.Sprintf("mkout %s %d %d %s %s %d %d %s", vh.List(pk), s.State, errc, vh.Bool(s.TimerArmed),
		zstr(s.RestartCount), s.Identifier, s.LastIdentifier, vh.Bytes(s.Local))
	r.trace = append(r.trace, vh.Pair(coqev, out))
	r.c.Evs = append(r.c.Evs, e)
	if e.A != "" {
		r.tags["ev:"+e.A] = true
	} else {
		r.tags["ev:"+e.K] = true
	}
	r.tags[fmt.Sprintf("st:%d", s.State)] = true
	if errc == 2 {
		r.tags["panic"] = true
	}
}

func optBytes(b []byte) string {
	if len(b) == 0 {
		return "None"
	}
	return "(Some " + vh.Bytes(b) + ")"
}

func (r *runner) finish(extraTags ...string) vh.Case {
	c := r.c
	var coq string
	tr := vh.List(r.trace)
	switch c.Proto {
	case "lcp":
		coq = fmt.Sprintf("CLcp %d %d %d %d %s %s %s %s %s\n  %s", c.Magic, c.MRU, c.Auth, c.Chap, vh.Bool(c.PFC), vh.Bool(c.ACFC),
			zstr(c.Max), vh.Bytes(c.Rng), vh.Bool(c.Live), tr)
	case "ipcp":
		coq = fmt.Sprintf("CIpcp %s %s %s %s %s %s\n  %s", optBytes(c.Local), optBytes(c.Peer), optBytes(c.DNS1), optBytes(c.DNS2),
			zstr(c.Max), vh.Bool(c.Live), tr)
	case "ipv6cp":
		coq = fmt.Sprintf("CV6 %d %s %s %s\n  %s", c.IfID, zstr(c.Max), vh.Bytes(c.Rng), vh.Bool(c.Live), tr)
	}
	r.m.Down() // stops the one-hour timer
	if r.bad != "" {
		panic("harness: " + r.bad)
	}
	tags := []string{"proto:" + c.Proto, fmt.Sprintf("len:%d", len(c.Evs)/4*4)}
	if c.Live {
		tags = append(tags, "live-clause-on")
	}
	for t := range r.tags {
		tags = append(tags, t)
	}
	tags = append(tags, extraTags...)
	sort.Strings(tags)
	return vh.Case{Coq: "(" + coq + ")", Desc: c, Tags: tags}
}

func replay(c Case) vh.Case {
	evs := c.Evs
	c.Evs = nil
	r := newRunner(c)
	for _, e := range evs {
		r.apply(e)
	}
	return r.finish()
}

// ---------------------------------------------------------------- packet builders

func pktBytes(code, id byte, data []byte) []byte {
	b := make([]byte, 4+len(data))
	b[0], b[1] = code, id
	binary.BigEndian.PutUint16(b[2:4], uint16(4+len(data)))
	copy(b[4:], data)
	return b
}
func opt(t byte, d ...byte) []byte { return append([]byte{t, byte(2 + len(d))}, d...) }
func cat(parts ...[]byte) []byte {
	var o []byte
	for _, p := range parts {
		o = append(o, p...)
	}
	return o
}
func be16(v uint16) []byte { return []byte{byte(v >> 8), byte(v)} }
func be32(v uint32) []byte { b := make([]byte, 4); binary.BigEndian.PutUint32(b, v); return b }
func be64(v uint64) []byte { b := make([]byte, 8); binary.BigEndian.PutUint64(b, v); return b }

// acceptable / nak-able / rejectable option sets for the protocol of r, built from the machine's
// current local option state (so that "loopback" really collides)
func (r *runner) goodOpts(g *vh.Rng) []byte {
	switch r.c.Proto {
	case "lcp":
		var parts [][]byte
		if g.Chance(3, 4) {
			parts = append(parts, opt(1, be16(uint16(64+g.Intn(1429)))...))
		}
		if g.Chance(3, 4) {
			m := uint32(g.U64()) | 1
			if m == binary.BigEndian.Uint32(r.snap.Local[0:4]) {
				m ^= 2
			}
			parts = append(parts, opt(5, be32(m)...))
		}
		if g.Chance(1, 3) {
			parts = append(parts, opt(7))
		}
		if g.Chance(1, 3) {
			parts = append(parts, opt(8))
		}
		return cat(parts...)
	case "ipcp":
		var parts [][]byte
		if len(r.c.Peer) == 4 {
			parts = append(parts, opt(3, r.c.Peer...))
		} else if g.Chance(1, 2) {
			parts = append(parts, opt(3, 10, byte(g.Intn(256)), byte(g.Intn(256)), byte(1+g.Intn(250))))
		}
		if g.Chance(1, 3) {
			if len(r.c.DNS1) == 0 && g.Bool() {
				parts = append(parts, opt(129, 0, 0, 0, 0))
			} else {
				parts = append(parts, opt(129, 8, 8, byte(g.Intn(256)), 8))
			}
		}
		if g.Chance(1, 4) {
			parts = append(parts, opt(131, 1, 1, 1, byte(1+g.Intn(200))))
		}
		return cat(parts...)
	default:
		id := g.U64() | 1
		if id == binary.BigEndian.Uint64(r.snap.Local[0:8]) {
			id ^= 4
		}
		if g.Chance(1, 8) {
			return nil
		}
		return opt(1, be64(id)...)
	}
}

func (r *runner) nakOpts(g *vh.Rng) []byte {
	switch r.c.Proto {
	case "lcp":
		switch g.Intn(5) {
		case 0:
			return opt(1, be16(uint16(g.Intn(64)))...)
		case 1:
			return opt(1, be16(uint16(1493+g.Intn(60000)))...)
		case 2:
			return opt(5, 0, 0, 0, 0)
		case 3:
			return opt(5, r.snap.Local[0:4]...) // loopback: our own magic number
		default:
			return cat(opt(1, be16(1500)...), opt(5, r.snap.Local[0:4]...), opt(7))
		}
	case "ipcp":
		switch g.Intn(4) {
		case 0:
			return opt(3, 0, 0, 0, 0)
		case 1:
			return opt(3, 192, 168, byte(g.Intn(256)), 77)
		case 2:
			return cat(opt(3, 0, 0, 0, 0), opt(129, 0, 0, 0, 0), opt(131, 0, 0, 0, 0))
		default:
			return opt(129, 0, 0, 0, 0)
		}
	default:
		if g.Bool() {
			return opt(1, 0, 0, 0, 0, 0, 0, 0, 0)
		}
		return opt(1, r.snap.Local[0:8]...) // collision with our identifier
	}
}

func (r *runner) rejOpts(g *vh.Rng) []byte {
	var base []byte
	if g.Bool() {
		base = r.goodOpts(g)
	}
	var bad []byte
	switch r.c.Proto {
	case "lcp":
		switch g.Intn(5) {
		case 0:
			bad = opt(3, 0xc0, 0x23)
		case 1:
			bad = opt(1, 5)
		case 2:
			bad = opt(5, 1, 2, 3)
		case 3:
			bad = opt(7, 9)
		default:
			bad = opt(byte(9+g.Intn(200)), g.Bytes(g.Intn(5))...)
		}
	case "ipcp":
		switch g.Intn(4) {
		case 0:
			bad = opt(2, 0, 0x2d, 15, 1)
		case 1:
			bad = opt(3, 10, 0, 0)
		case 2:
			bad = opt(129, 1)
		default:
			bad = opt(byte(4+g.Intn(100)), g.Bytes(g.Intn(5))...)
		}
	default:
		if g.Bool() {
			bad = opt(1, 1, 2, 3)
		} else {
			bad = opt(byte(2+g.Intn(200)), g.Bytes(g.Intn(9))...)
		}
	}
	if g.Bool() {
		return cat(base, bad)
	}
	return cat(bad, base)
}

func malformedOpts(g *vh.Rng) []byte {
	switch g.Intn(3) {
	case 0:
		return []byte{1, 0}
	case 1:
		return []byte{5, 1, 9}
	default:
		return []byte{1, 9, 1, 2}
	}
}

// suggestion lists for Nak / Reject we receive
func (r *runner) nakBody(g *vh.Rng) []byte {
	switch r.c.Proto {
	case "lcp":
		switch g.Intn(5) {
		case 0:
			return opt(1, be16(uint16(64+g.Intn(1429)))...)
		case 1:
			return opt(1, be16(uint16(g.Intn(3000)))...)
		case 2:
			return opt(5, g.Bytes(4)...)
		case 3:
			return opt(3, 0xc2, 0x23, 5)
		default:
			return cat(opt(1, be16(1400)...), opt(5, 1, 1, 1, 1), opt(3, 0xc0, 0x23))
		}
	case "ipcp":
		if g.Chance(1, 4) {
			return opt(3, 1, 2)
		}
		return opt(3, 10, 9, byte(g.Intn(256)), 1)
	default:
		if g.Chance(1, 4) {
			return opt(1, 1, 2)
		}
		return opt(1, g.Bytes(8)...)
	}
}
func (r *runner) rejBody(g *vh.Rng) []byte {
	switch r.c.Proto {
	case "lcp":
		switch g.Intn(4) {
		case 0:
			return opt(7)
		case 1:
			return opt(8)
		case 2:
			return opt(3, 0xc0, 0x23)
		default:
			return cat(opt(7), opt(8))
		}
	case "ipcp":
		return opt(3, r.c.Local...)
	default:
		return opt(1, r.snap.Local[8:16]...)
	}
}

var kinds = []string{"up", "down", "open", "close", "rcr+", "rcr-nak", "rcr-rej", "rcr-bad", "rca", "rca-stale",
	"rcn", "rcn-stale", "rcn-bad", "rcj", "rcj-stale", "rcj-bad", "rtr", "rta", "cj-crit", "cj-other", "pj-lcp", "pj-other",
	"echoreq", "echoreq-short", "echorep", "discard", "unknown", "short", "trail", "fire", "fire-stale", "sendecho"}

var shortEchoOK = true // false while the implementation panics on it (C09's subject): the class is skipped

// build turns an abstract kind into a concrete event for the runner's current state; ok=false when
// the kind is not applicable (no such timer token, echo on an NCP ...).
func (r *runner) build(kind string, g *vh.Rng) (Ev, bool) {
	last := r.snap.LastIdentifier
	other := last + 1 + byte(g.Intn(254))
	anyid := byte(g.Intn(256))
	rx := func(b []byte) (Ev, bool) { return Ev{K: "recv", D: b, A: kind}, true }
	switch kind {
	case "up", "down", "open", "close":
		return Ev{K: kind, A: kind}, true
	case "rcr+":
		return rx(pktBytes(1, anyid, r.goodOpts(g)))
	case "rcr-nak":
		b := r.nakOpts(g)
		if g.Chance(1, 3) {
			b = cat(r.goodOpts(g), b)
		}
		return rx(pktBytes(1, anyid, b))
	case "rcr-rej":
		return rx(pktBytes(1, anyid, r.rejOpts(g)))
	case "rcr-bad":
		return rx(pktBytes(1, anyid, cat(r.goodOpts(g), malformedOpts(g))))
	case "rca":
		return rx(pktBytes(2, last, g.Bytes(g.Intn(4)*2)))
	case "rca-stale":
		return rx(pktBytes(2, other, nil))
	case "rcn":
		return rx(pktBytes(3, last, r.nakBody(g)))
	case "rcn-good": // a well-formed Nak that changes our own options (not in kinds: used by the sweep only)
		switch r.c.Proto {
		case "lcp":
			return rx(pktBytes(3, last, cat(opt(1, be16(1400)...), opt(5, 1, 1, 1, 1))))
		case "ipcp":
			return rx(pktBytes(3, last, opt(3, 10, 9, 8, 7)))
		default:
			return rx(pktBytes(3, last, opt(1, 2, 0, 0, 0, 0, 0, 0, 9)))
		}
	case "rcn-stale":
		return rx(pktBytes(3, other, r.nakBody(g)))
	case "rcn-bad":
		return rx(pktBytes(3, last, malformedOpts(g)))
	case "rcj":
		return rx(pktBytes(4, last, r.rejBody(g)))
	case "rcj-stale":
		return rx(pktBytes(4, other, r.rejBody(g)))
	case "rcj-bad":
		return rx(pktBytes(4, last, malformedOpts(g)))
	case "rtr":
		return rx(pktBytes(5, anyid, g.Bytes(g.Intn(6))))
	case "rta":
		return rx(pktBytes(6, anyid, nil))
	case "cj-crit":
		return rx(pktBytes(7, anyid, append([]byte{byte(1 + g.Intn(4)), last, 0, 4}, g.Bytes(g.Intn(3))...)))
	case "cj-other":
		if g.Bool() {
			return rx(pktBytes(7, anyid, nil))
		}
		return rx(pktBytes(7, anyid, []byte{byte(5 + g.Intn(250)), 1, 0, 4}))
	case "pj-lcp":
		return rx(pktBytes(8, anyid, []byte{0xc0, 0x21, 1, 1, 0, 4}))
	case "pj-other":
		switch g.Intn(3) {
		case 0:
			return rx(pktBytes(8, anyid, []byte{0x80, 0x21, 1, 1, 0, 4}))
		case 1:
			return rx(pktBytes(8, anyid, []byte{0xc0}))
		default:
			return rx(pktBytes(8, anyid, nil))
		}
	case "echoreq":
		return rx(pktBytes(9, anyid, g.Bytes(4+g.Intn(6))))
	case "echoreq-short":
		if !shortEchoOK {
			return Ev{}, false
		}
		return rx(pktBytes(9, anyid, g.Bytes(g.Intn(4))))
	case "echorep":
		return rx(pktBytes(10, anyid, g.Bytes(4)))
	case "discard":
		return rx(pktBytes(11, anyid, g.Bytes(g.Intn(4))))
	case "unknown":
		c := byte(12 + g.Intn(244))
		if g.Chance(1, 5) {
			c = 0
		}
		return rx(pktBytes(c, anyid, g.Bytes(g.Intn(5))))
	case "short": // header problems: too short, length beyond data, length below 4
		switch g.Intn(4) {
		case 0:
			return rx(g.Bytes(g.Intn(4)))
		case 1:
			return rx([]byte{byte(1 + g.Intn(6)), last, 0, byte(5 + g.Intn(20))})
		case 2:
			return rx([]byte{byte(1 + g.Intn(6)), last, 0, byte(g.Intn(4)), 1, 4, 5, 220})
		default:
			return rx([]byte{2, last, 0, 2})
		}
	case "trail": // a request with padding after Length and a stray byte after the options
		body := cat(r.goodOpts(g), []byte{byte(g.Intn(256))})
		return rx(cat(pktBytes(1, anyid, body), g.Bytes(1+g.Intn(3))))
	case "fire":
		if t := r.freshTok(); t != 0 {
			return Ev{K: "fire", T: t, A: "fire-fresh"}, true
		}
		return Ev{}, false
	case "fire-stale":
		if t := r.staleTok(); t != 0 {
			return Ev{K: "fire", T: t, A: "fire-stale"}, true
		}
		return Ev{}, false
	case "sendecho":
		if r.lcp == nil {
			return Ev{}, false
		}
		return Ev{K: "echo", A: "sendecho"}, true
	}
	panic("kind " + kind)
}

// ---------------------------------------------------------------- configurations

func genCfg(g *vh.Rng, proto string) Case {
	c := Case{Proto: proto}
	maxes := []int{1, 2, 3, 3, 4, 10, 0, -1}
	c.Max = maxes[g.Intn(len(maxes))]
	n := g.Intn(40)
	c.Rng = g.Bytes(n)
	if g.Chance(1, 6) {
		c.Rng = make([]byte, n) // zeros: generated magic numbers are 0
	}
	switch proto {
	case "lcp":
		c.MRU = uint16([]int{1492, 1492, 1500, 296, 0}[g.Intn(5)])
		c.Magic = uint32(g.U64())
		if g.Chance(1, 5) {
			c.Magic = 0
		}
		c.Auth = []uint16{pppoe.ProtocolPAP, pppoe.ProtocolCHAP, 0}[g.Intn(3)]
		c.Chap = 5
		c.PFC, c.ACFC = g.Chance(1, 3), g.Chance(1, 3)
	case "ipcp":
		if g.Chance(5, 6) {
			c.Local = []byte{10, 0, 0, 1}
		}
		if g.Bool() {
			c.Peer = []byte{10, 0, byte(g.Intn(256)), byte(2 + g.Intn(200))}
		}
		if g.Bool() {
			c.DNS1 = []byte{8, 8, 8, 8}
		}
		if g.Bool() {
			c.DNS2 = []byte{8, 8, 4, 4}
		}
	default:
		c.IfID = g.U64()
		if g.Chance(1, 4) {
			c.IfID = 0
		}
	}
	return c
}

func bfsCfgs() []Case {
	return []Case{
		{Proto: "lcp", Magic: 0x11223344, MRU: 1492, Auth: pppoe.ProtocolPAP, Chap: 5, PFC: true, Max: 2, Rng: []byte{1, 2, 3, 4, 5, 6, 7, 8, 9, 10, 11, 12, 13, 14, 15, 16}},
		{Proto: "ipcp", Local: []byte{10, 0, 0, 1}, Peer: []byte{10, 0, 0, 9}, DNS1: []byte{8, 8, 8, 8}, Max: 2},
		{Proto: "ipcp", Local: []byte{10, 0, 0, 1}, Max: 2},
		{Proto: "ipv6cp", IfID: 0x0200000000000001, Max: 2, Rng: []byte{9, 8, 7, 6, 5, 4, 3, 2, 1, 0, 1, 2, 3, 4, 5, 6, 7, 8, 9, 1, 2, 3, 4, 5}},
	}
}

// abstract fingerprint of the automaton (identifiers abstracted away)
func (r *runner) finger() string {
	rc := "0"
	if r.snap.RestartCount == 1 {
		rc = "1"
	} else if r.snap.RestartCount > 1 {
		rc = "2"
	}
	return fmt.Sprintf("%d/%v/%v/%v/%s/%v/%v", r.snap.State, r.snap.TimerArmed, r.freshTok() != 0, r.staleTok() != 0, rc, r.we, r.peer)
}

// bfs explores the abstract state graph of the IMPLEMENTATION breadth-first: every (fingerprint,
// event kind) edge becomes one case (shortest path to the fingerprint + the event).
// With sample=true (quick tier) the graph is still explored to the fixed point but only the first
// edge of every (source state, event kind) pair is emitted.
func bfs(cfg Case, g *vh.Rng, maxStates int, sample bool) ([]vh.Case, int) {
	kept := map[string]bool{}
	type node struct{ path []Ev }
	seen := map[string]bool{}
	var queue []node
	var cases []vh.Case
	r0 := newRunner(cfg)
	seen[r0.finger()] = true
	r0.m.Down()
	queue = append(queue, node{})
	for len(queue) > 0 && len(seen) <= maxStates {
		n := queue[0]
		queue = queue[1:]
		for _, k := range kinds {
			r := newRunner(cfg)
			for _, e := range n.path {
				r.apply(e)
			}
			e, ok := r.build(k, g.Fork())
			if !ok {
				r.m.Down()
				continue
			}
			src := fmt.Sprintf("%d/%s", r.snap.State, k)
			r.apply(e)
			f := r.finger()
			path := append([]Ev(nil), r.c.Evs...)
			vc := r.finish("gen:bfs")
			if !sample || !kept[src] {
				kept[src] = true
				cases = append(cases, vc)
			}
			if !seen[f] {
				seen[f] = true
				queue = append(queue, node{path: path})
			}
		}
	}
	return cases, len(seen)
}

func randomCase(g *vh.Rng, proto string, depth int, live bool) vh.Case {
	c := genCfg(g, proto)
	c.Live = live
	r := newRunner(c)
	// mostly start from an opened administrative state so that packets matter
	if g.Chance(3, 4) {
		if g.Bool() {
			r.apply(Ev{K: "open", A: "open"})
			r.apply(Ev{K: "up", A: "up"})
		} else {
			r.apply(Ev{K: "up", A: "up"})
			r.apply(Ev{K: "open", A: "open"})
		}
	}
	weights := map[string]int{"rcr+": 6, "rca": 6, "rcr-nak": 3, "rcr-rej": 2, "rcn": 3, "rcj": 2, "fire": 5, "fire-stale": 4, "rtr": 2, "rta": 2, "open": 2, "up": 2}
	var bag []string
	for _, k := range kinds {
		w := weights[k]
		if w == 0 {
			w = 1
		}
		for i := 0; i < w; i++ {
			bag = append(bag, k)
		}
	}
	n := 1 + g.Intn(depth)
	for i := 0; i < n; i++ {
		e, ok := r.build(bag[g.Intn(len(bag))], g)
		if ok {
			r.apply(e)
		}
	}
	return r.finish("gen:random")
}

// silentCase: Open+Up, an optional prefix, then the peer falls silent: only regular expiries.
func silentCase(g *vh.Rng, proto string, prefix int, live bool) vh.Case {
	c := genCfg(g, proto)
	c.Max = []int{0, 1, 2, 3, 5, 10, 12, -2}[g.Intn(8)]
	c.Live = live
	r := newRunner(c)
	if g.Bool() {
		r.apply(Ev{K: "open", A: "open"})
		r.apply(Ev{K: "up", A: "up"})
	} else {
		r.apply(Ev{K: "up", A: "up"})
		r.apply(Ev{K: "open", A: "open"})
	}
	pre := []string{"rcr+", "rca", "rcr-nak", "rcn", "rcj", "close", "rtr", "rta", "rcr-rej", "fire-stale", "rca-stale"}
	for i := 0; i < prefix; i++ {
		if e, ok := r.build(pre[g.Intn(len(pre))], g); ok {
			r.apply(e)
		}
	}
	for i := 0; i < 16; i++ {
		e, ok := r.build("fire", g)
		if !ok {
			break
		}
		r.apply(e)
	}
	tag := "gen:silent"
	if prefix > 0 {
		tag = "gen:silent-after-prefix"
	}
	return r.finish(tag)
}

// ---------------------------------------------------------------- option-value sweep (stream optsweep)

// reach: shortest event-kind paths into each of the ten states (every state answers a
// Configure-Request, so every state is a place where the option processor runs)
var reach = []struct {
	name string
	st   int
	path []string
}{
	{"reqsent", 6, []string{"open", "up"}},
	{"ackrcvd", 7, []string{"open", "up", "rca"}},
	{"acksent", 8, []string{"open", "up", "rcr+"}},
	{"opened", 9, []string{"open", "up", "rcr+", "rca"}},
	{"initial", 0, nil},
	{"starting", 1, []string{"open"}},
	{"closed", 2, []string{"up"}},
	{"stopped", 3, []string{"open", "up", "rtr"}},
	{"closing", 4, []string{"open", "up", "close"}},
	{"stopping", 5, []string{"open", "up", "rcr+", "rca", "rtr"}},
	{"reqsent-after-nak", 6, []string{"open", "up", "rcn-good"}}, // our own options changed by the peer's Nak (IPv6CP: negotiated id != config id)
}

// boundary set of a numeric option accepted on [min,max] with default def
func bset(min, max, def, top uint64) []uint64 {
	var out []uint64
	seen := map[uint64]bool{}
	for _, v := range []uint64{min - 1, min, min + 1, def, max - 1, max, max + 1, 0, top} {
		if !seen[v] {
			seen[v] = true
			out = append(out, v)
		}
	}
	return out
}

type variant struct {
	name string
	body func(r *runner) []byte
}

func fixed(name string, b []byte) variant {
	return variant{name, func(*runner) []byte { return b }}
}

// sweepVariants: the option lists of a Configure-Request that probe every acceptance rule of the
// protocol's option processor at its boundaries: each numeric option over its boundary set, every
// length around the coded one, values equal / adjacent to our own (magic number, interface id,
// assigned address), unknown types, lists ending in a data-less option, duplicated and reordered
// options.
func sweepVariants(proto string) []variant {
	var vs []variant
	add := func(v variant) { vs = append(vs, v) }
	switch proto {
	case "lcp":
		ours := func(r *runner) uint32 { return binary.BigEndian.Uint32(r.snap.Local[0:4]) }
		okMagic := func(r *runner) []byte { // a magic number that is neither zero nor ours
			m := uint32(0x5a5a5a5a)
			if m == ours(r) {
				m++
			}
			return opt(5, be32(m)...)
		}
		for _, v := range append(bset(64, 1492, 1492, 0xffff), 1500, 296) {
			v := uint16(v)
			add(fixed(fmt.Sprintf("mru=%d", v), opt(1, be16(v)...)))
		}
		for _, v := range []uint16{63, 64, 65, 1491, 1492, 1493} {
			v := v
			add(variant{fmt.Sprintf("mru=%d,magic", v), func(r *runner) []byte { return cat(opt(1, be16(v)...), okMagic(r)) }})
			add(variant{fmt.Sprintf("magic,mru=%d", v), func(r *runner) []byte { return cat(okMagic(r), opt(1, be16(v)...)) }})
		}
		add(fixed("mru-len0", opt(1)))
		add(fixed("mru-len1", opt(1, 5)))
		add(fixed("mru-len3", opt(1, 0, 64, 0)))
		add(fixed("mru-len4", opt(1, 0, 0, 5, 220)))
		add(fixed("auth-pap", opt(3, 0xc0, 0x23)))
		add(fixed("auth-chap", opt(3, 0xc2, 0x23, 5)))
		add(fixed("auth-len0", opt(3)))
		add(fixed("auth-len1", opt(3, 0xc0)))
		add(fixed("auth-other", opt(3, 0x12, 0x34)))
		add(fixed("magic=0", opt(5, 0, 0, 0, 0)))
		add(variant{"magic=ours", func(r *runner) []byte { return opt(5, be32(ours(r))...) }})
		add(variant{"magic=ours+1", func(r *runner) []byte { return opt(5, be32(ours(r)+1)...) }})
		add(variant{"magic=ours-1", func(r *runner) []byte { return opt(5, be32(ours(r)-1)...) }})
		add(fixed("magic=1", opt(5, 0, 0, 0, 1)))
		add(fixed("magic=max", opt(5, 255, 255, 255, 255)))
		add(fixed("magic-len0", opt(5)))
		add(fixed("magic-len3", opt(5, 1, 2, 3)))
		add(fixed("magic-len5", opt(5, 1, 2, 3, 4, 5)))
		add(fixed("pfc", opt(7)))
		add(fixed("pfc-len1", opt(7, 0)))
		add(fixed("acfc", opt(8)))
		add(fixed("acfc-len2", opt(8, 1, 2)))
		for _, t := range []byte{0, 2, 4, 6, 9, 13, 255} {
			add(fixed(fmt.Sprintf("unknown-%d", t), opt(t, make([]byte, 1+int(t)%4)...)))
			add(fixed(fmt.Sprintf("unknown-%d-len0", t), opt(t)))
		}
		add(fixed("mru,pfc-last", cat(opt(1, be16(1492)...), opt(7))))
		add(variant{"magic,acfc-last", func(r *runner) []byte { return cat(okMagic(r), opt(8)) }})
		add(fixed("mru,unknown2-last", cat(opt(1, be16(1400)...), opt(9))))
		add(fixed("pfc,acfc", cat(opt(7), opt(8))))
		add(fixed("dup-mru-64-1500", cat(opt(1, be16(64)...), opt(1, be16(1500)...))))
		add(fixed("dup-mru-1493-63", cat(opt(1, be16(1493)...), opt(1, be16(63)...))))
		add(fixed("dup-mru-same", cat(opt(1, be16(1492)...), opt(1, be16(1492)...))))
		add(variant{"dup-magic-ours", func(r *runner) []byte { return cat(opt(5, be32(ours(r))...), opt(5, be32(ours(r))...)) }})
		add(variant{"dup-magic-0-ours", func(r *runner) []byte { return cat(opt(5, 0, 0, 0, 0), opt(5, be32(ours(r))...)) }})
		add(fixed("dup-pfc", cat(opt(7), opt(7))))
		add(variant{"reorder-all", func(r *runner) []byte { return cat(opt(8), opt(7), okMagic(r), opt(1, be16(64)...)) }})
		add(variant{"nak3", func(r *runner) []byte {
			return cat(opt(1, be16(63)...), opt(5, be32(ours(r))...), opt(1, be16(1493)...))
		}})
		add(fixed("rej-wins", cat(opt(13, 1), opt(1, be16(63)...), opt(5, 0, 0, 0, 0))))
		add(fixed("empty", nil))
	case "ipcp":
		asg := func(r *runner) []byte { // the assigned address, or a plausible one when none is assigned
			if len(r.c.Peer) == 4 {
				return append([]byte(nil), r.c.Peer...)
			}
			return []byte{10, 0, 0, 9}
		}
		delta := func(r *runner, d int) []byte {
			a := asg(r)
			binary.BigEndian.PutUint32(a, binary.BigEndian.Uint32(a)+uint32(d))
			return a
		}
		add(fixed("addr=0", opt(3, 0, 0, 0, 0)))
		add(variant{"addr=assigned", func(r *runner) []byte { return opt(3, asg(r)...) }})
		add(variant{"addr=assigned+1", func(r *runner) []byte { return opt(3, delta(r, 1)...) }})
		add(variant{"addr=assigned-1", func(r *runner) []byte { return opt(3, delta(r, -1)...) }})
		add(variant{"addr=assigned^hi", func(r *runner) []byte { a := asg(r); a[0] ^= 0x80; return opt(3, a...) }})
		add(fixed("addr=max", opt(3, 255, 255, 255, 255)))
		add(fixed("addr=0.0.0.1", opt(3, 0, 0, 0, 1)))
		add(fixed("addr=1.0.0.0", opt(3, 1, 0, 0, 0)))
		add(fixed("addr-len0", opt(3)))
		add(fixed("addr-len3", opt(3, 10, 0, 0)))
		add(fixed("addr-len5", opt(3, 10, 0, 0, 9, 0)))
		add(fixed("addr-len16", opt(3, 0, 0, 0, 0, 0, 0, 0, 0, 0, 0, 255, 255, 10, 0, 0, 9)))
		for _, t := range []byte{129, 131} {
			add(fixed(fmt.Sprintf("dns%d=0", t), opt(t, 0, 0, 0, 0)))
			add(fixed(fmt.Sprintf("dns%d=0.0.0.1", t), opt(t, 0, 0, 0, 1)))
			add(fixed(fmt.Sprintf("dns%d=set", t), opt(t, 9, 9, 9, 9)))
			add(fixed(fmt.Sprintf("dns%d-len0", t), opt(t)))
			add(fixed(fmt.Sprintf("dns%d-len3", t), opt(t, 8, 8, 8)))
			add(fixed(fmt.Sprintf("dns%d-len5", t), opt(t, 8, 8, 8, 8, 8)))
		}
		add(fixed("comp-vj", opt(2, 0, 0x2d, 15, 1)))
		add(fixed("comp-len0", opt(2)))
		for _, t := range []byte{0, 1, 4, 128, 130, 132, 255} {
			add(fixed(fmt.Sprintf("unknown-%d", t), opt(t, make([]byte, 4)...)))
			add(fixed(fmt.Sprintf("unknown-%d-len0", t), opt(t)))
		}
		add(variant{"addr,dns0,dns0", func(r *runner) []byte { return cat(opt(3, asg(r)...), opt(129, 0, 0, 0, 0), opt(131, 0, 0, 0, 0)) }})
		add(fixed("dns0,addr0", cat(opt(129, 0, 0, 0, 0), opt(3, 0, 0, 0, 0))))
		add(variant{"addr,unknown2-last", func(r *runner) []byte { return cat(opt(3, asg(r)...), opt(4)) }})
		add(variant{"dup-addr-ok-wrong", func(r *runner) []byte { return cat(opt(3, asg(r)...), opt(3, delta(r, 1)...)) }})
		add(variant{"dup-addr-wrong-ok", func(r *runner) []byte { return cat(opt(3, delta(r, 1)...), opt(3, asg(r)...)) }})
		add(variant{"dup-addr-ok-ok", func(r *runner) []byte { return cat(opt(3, asg(r)...), opt(3, asg(r)...)) }})
		add(variant{"reorder", func(r *runner) []byte { return cat(opt(131, 1, 1, 1, 1), opt(129, 9, 9, 9, 9), opt(3, asg(r)...)) }})
		add(variant{"rej-wins", func(r *runner) []byte {
			return cat(opt(3, delta(r, 1)...), opt(2, 0, 0x2d, 15, 1), opt(129, 0, 0, 0, 0))
		}})
		add(fixed("empty", nil))
	default:
		cfgID := func(r *runner) uint64 { return binary.BigEndian.Uint64(r.snap.Local[0:8]) }
		negID := func(r *runner) uint64 { return binary.BigEndian.Uint64(r.snap.Local[8:16]) }
		okID := func(r *runner) uint64 {
			v := uint64(0x0200005efe000001)
			for v == cfgID(r) || v == negID(r) {
				v++
			}
			return v
		}
		add(fixed("ifid=0", opt(1, be64(0)...)))
		add(variant{"ifid=ours", func(r *runner) []byte { return opt(1, be64(cfgID(r))...) }})
		add(variant{"ifid=ours+1", func(r *runner) []byte { return opt(1, be64(cfgID(r)+1)...) }})
		add(variant{"ifid=ours-1", func(r *runner) []byte { return opt(1, be64(cfgID(r)-1)...) }})
		add(variant{"ifid=negotiated", func(r *runner) []byte { return opt(1, be64(negID(r))...) }})
		add(fixed("ifid=1", opt(1, be64(1)...)))
		add(fixed("ifid=max", opt(1, be64(^uint64(0))...)))
		add(fixed("ifid-len0", opt(1)))
		add(fixed("ifid-len4", opt(1, 1, 2, 3, 4)))
		add(fixed("ifid-len7", opt(1, 1, 2, 3, 4, 5, 6, 7)))
		add(fixed("ifid-len9", opt(1, 1, 2, 3, 4, 5, 6, 7, 8, 9)))
		for _, t := range []byte{0, 2, 3, 255} {
			add(fixed(fmt.Sprintf("unknown-%d", t), opt(t, 0, 0x61)))
			add(fixed(fmt.Sprintf("unknown-%d-len0", t), opt(t)))
		}
		add(variant{"ifid,unknown2-last", func(r *runner) []byte { return cat(opt(1, be64(okID(r))...), opt(2)) }})
		add(variant{"dup-ours-ours", func(r *runner) []byte { return cat(opt(1, be64(cfgID(r))...), opt(1, be64(cfgID(r))...)) }})
		add(variant{"dup-0-ours", func(r *runner) []byte { return cat(opt(1, be64(0)...), opt(1, be64(cfgID(r))...)) }})
		add(variant{"dup-ok-ok", func(r *runner) []byte { return cat(opt(1, be64(okID(r))...), opt(1, be64(okID(r)+8)...)) }})
		add(variant{"dup-ok-0", func(r *runner) []byte { return cat(opt(1, be64(okID(r))...), opt(1, be64(0)...)) }})
		add(fixed("rej-wins", cat(opt(7, 1), opt(1, be64(0)...))))
		add(fixed("empty", nil))
	}
	return vs
}

// nakVariants: suggestion lists of a Configure-Nak we receive (receiveConfigureNak's own value rules:
// LCP MRU bounds and lengths, magic length; IPCP / IPv6CP exact lengths)
func nakVariants(proto string) []variant {
	var vs []variant
	switch proto {
	case "lcp":
		for _, v := range append(bset(64, 1492, 1492, 0xffff), 1500, 296) {
			vs = append(vs, fixed(fmt.Sprintf("nak-mru=%d", v), opt(1, be16(uint16(v))...)))
		}
		vs = append(vs, fixed("nak-mru-len1", opt(1, 5)), fixed("nak-mru-len3", opt(1, 0, 64, 9)), fixed("nak-mru-len0", opt(1)),
			fixed("nak-magic-len3", opt(5, 1, 2, 3)), fixed("nak-magic-len4", opt(5, 1, 2, 3, 4)), fixed("nak-magic-len5", opt(5, 1, 2, 3, 4, 5)),
			fixed("nak-auth-pap", opt(3, 0xc0, 0x23)), fixed("nak-auth-chap", opt(3, 0xc2, 0x23, 5)), fixed("nak-auth-len1", opt(3, 0xc0)),
			fixed("nak-mru64,mru1493", cat(opt(1, be16(64)...), opt(1, be16(1493)...))),
			fixed("nak-pfc-last", cat(opt(1, be16(1400)...), opt(7))))
	case "ipcp":
		vs = append(vs, fixed("nak-addr", opt(3, 10, 9, 8, 7)), fixed("nak-addr=0", opt(3, 0, 0, 0, 0)), fixed("nak-addr-len3", opt(3, 10, 9, 8)),
			fixed("nak-addr-len5", opt(3, 10, 9, 8, 7, 6)), fixed("nak-addr-len0", opt(3)), fixed("nak-dns", opt(129, 1, 1, 1, 1)),
			fixed("nak-addr,addr", cat(opt(3, 10, 9, 8, 7), opt(3, 10, 9, 8, 6))))
	default:
		vs = append(vs, fixed("nak-ifid", opt(1, 2, 0, 0, 0, 0, 0, 0, 9)), fixed("nak-ifid=0", opt(1, be64(0)...)), fixed("nak-ifid-len7", opt(1, 1, 2, 3, 4, 5, 6, 7)),
			fixed("nak-ifid-len9", opt(1, 1, 2, 3, 4, 5, 6, 7, 8, 9)), fixed("nak-ifid-len0", opt(1)), fixed("nak-other", opt(2, 0, 0x61)))
	}
	return vs
}

func sweepCfgs(thorough bool) []Case {
	rng := []byte{1, 2, 3, 4, 5, 6, 7, 8, 9, 10, 11, 12, 13, 14, 15, 16, 17, 18, 19, 20, 21, 22, 23, 24, 25, 26, 27, 28, 29, 30, 31, 32}
	cs := []Case{
		{Proto: "lcp", Magic: 0x11223344, MRU: 1492, Auth: pppoe.ProtocolPAP, Chap: 5, PFC: true, Max: 3, Rng: rng},
		{Proto: "ipcp", Local: []byte{10, 0, 0, 1}, Peer: []byte{10, 0, 0, 9}, DNS1: []byte{8, 8, 8, 8}, Max: 3},
		{Proto: "ipcp", Local: []byte{10, 0, 0, 1}, DNS2: []byte{8, 8, 4, 4}, Max: 3},
		{Proto: "ipv6cp", IfID: 0x0200000000000001, Max: 3, Rng: rng},
	}
	if thorough {
		cs = append(cs,
			Case{Proto: "lcp", Magic: 0, MRU: 296, Auth: pppoe.ProtocolCHAP, Chap: 5, ACFC: true, Max: 1, Rng: rng},
			Case{Proto: "lcp", Magic: 1, MRU: 64, Auth: 0, Max: 0},
			Case{Proto: "ipcp", Local: []byte{10, 0, 0, 1}, Peer: []byte{0, 0, 0, 1}, DNS1: []byte{8, 8, 8, 8}, DNS2: []byte{8, 8, 4, 4}, Max: 1},
			Case{Proto: "ipcp", Peer: []byte{255, 255, 255, 255}, Max: 0},
			Case{Proto: "ipv6cp", IfID: 0, Max: 1, Rng: rng},
			Case{Proto: "ipv6cp", IfID: 1, Max: 0})
	}
	return cs
}

// sweep: variant x state; quick = every variant in Ack-Rcvd (an Ack opens the layer), in one of
// Req-Sent / Ack-Sent / Opened and in one of the six other states, in rotation; thorough = the full
// product and more configurations.
func sweep(g *vh.Rng, thorough bool) []vh.Case {
	var out []vh.Case
	one := func(cfg Case, ri int, v variant, code byte, tag string) {
		r := newRunner(cfg)
		gg := g.Fork()
		for _, k := range reach[ri].path {
			if e, ok := r.build(k, gg); ok {
				r.apply(e)
			}
		}
		extra := []string{"gen:" + tag, "sweep-state:" + reach[ri].name, "sweep:" + v.name}
		if r.snap.State != reach[ri].st {
			extra = append(extra, "sweep-prefix-missed")
		}
		id := byte(0x40 + len(out)%97)
		if code != 1 {
			id = r.snap.LastIdentifier
		}
		r.apply(Ev{K: "recv", D: pktBytes(code, id, v.body(r)), A: tag})
		// the consequence of the verdict: the peer's Ack for our latest request (opens from Ack-Sent)
		if code == 1 && len(out)%2 == 0 {
			if e, ok := r.build("rca", gg); ok {
				r.apply(e)
			}
		}
		out = append(out, r.finish(extra...))
	}
	for _, cfg := range sweepCfgs(thorough) {
		for vi, v := range sweepVariants(cfg.Proto) {
			for ri := range reach {
				if thorough || ri == 1 || ri == []int{0, 2, 3}[vi%3] || ri == 4+vi%6 || (ri == 10 && (vi%4 == 0 || strings.Contains(v.name, "ours") || strings.Contains(v.name, "negotiated"))) {
					one(cfg, ri, v, 1, "optsweep")
				}
			}
		}
		for vi, v := range nakVariants(cfg.Proto) {
			for ri := 0; ri < 4; ri++ {
				if thorough || ri == 0 || ri == 1+vi%3 {
					one(cfg, ri, v, 3, "naksweep")
				}
			}
		}
	}
	return out
}

// ---------------------------------------------------------------- renegotiation across Down/Up and Close/Open

// renegCase: negotiate (random prefix), take the lower layer down and up again (or close and
// re-open), then negotiate again: whatever the automaton carries across the cycle (assigned
// address, local options, identifiers, counters, ack bits) is exercised by the second round.
func renegCase(g *vh.Rng, proto string, live bool) vh.Case {
	c := genCfg(g, proto)
	c.Live = live
	if proto == "ipcp" && g.Chance(3, 4) {
		c.Peer = []byte{10, 0, byte(g.Intn(256)), byte(2 + g.Intn(200))} // statically assigned address, no pool
	}
	r := newRunner(c)
	r.apply(Ev{K: "open", A: "open"})
	r.apply(Ev{K: "up", A: "up"})
	neg := []string{"rcr+", "rcr+", "rca", "rca", "rcr-nak", "rcn", "rcj", "rcr-rej", "fire", "rtr", "rta"}
	cycles := 1 + g.Intn(2)
	for cy := 0; cy < cycles; cy++ {
		for i, n := 0, g.Intn(4); i < n; i++ {
			if e, ok := r.build(neg[g.Intn(len(neg))], g); ok {
				r.apply(e)
			}
		}
		switch g.Intn(4) {
		case 0, 1:
			r.apply(Ev{K: "down", A: "down"})
			r.apply(Ev{K: "up", A: "up"})
		case 2:
			r.apply(Ev{K: "close", A: "close"})
			if e, ok := r.build([]string{"rta", "fire", "down"}[g.Intn(3)], g); ok {
				r.apply(e)
			}
			r.apply(Ev{K: "open", A: "open"})
			r.apply(Ev{K: "up", A: "up"})
		default:
			r.apply(Ev{K: "down", A: "down"})
			r.apply(Ev{K: "close", A: "close"})
			r.apply(Ev{K: "open", A: "open"})
			r.apply(Ev{K: "up", A: "up"})
		}
		// second round: a request the policy must judge exactly as in the first incarnation
		for _, k := range [][]string{{"rcr-nak", "rca"}, {"rcr+", "rca"}, {"rca", "rcr-nak"}, {"rcr-nak", "rcr+", "rca"}}[g.Intn(4)] {
			if e, ok := r.build(k, g); ok {
				r.apply(e)
			}
		}
	}
	return r.finish("gen:reneg")
}

// ---------------------------------------------------------------- identifier wrap 255 -> 0

// wrapCase: more than 256 identifiers are consumed (Configure-Naks with the matching identifier make
// the automaton send a new request each; LCP also code-rejects), then a negotiation across the
// wrap with matching and stale identifiers.
func wrapCase(g *vh.Rng, proto string, start int) vh.Case {
	c := genCfg(g, proto)
	c.Max = 3
	r := newRunner(c)
	r.apply(Ev{K: "open", A: "open"})
	r.apply(Ev{K: "up", A: "up"})
	for i := 0; i < start; i++ {
		k := "rcn"
		if proto == "lcp" && i%7 == 3 {
			k = "unknown"
		}
		if e, ok := r.build(k, g); ok {
			r.apply(e)
		}
	}
	for i := 0; i < 6; i++ { // around the wrap
		for _, k := range []string{"rca-stale", "rcr+", "rca", "rca", "rcn", "sendecho", "rcr-nak", "rcj"} {
			if g.Chance(2, 3) {
				if e, ok := r.build(k, g); ok {
					r.apply(e)
				}
			}
		}
	}
	return r.finish("gen:idwrap")
}

// ---------------------------------------------------------------- restart-counter exhaustion, every phase

// exhaustCase: bring the automaton into a retransmitting state of the configure or terminate phase
// by the given path, then deliver regular expiries until no timer is left; the monitor counts the
// requests (clause 5) and, with live, demands a running timer until a terminal state (clause 6).
func exhaustCase(g *vh.Rng, proto string, max int, path []string, live bool) vh.Case {
	c := genCfg(g, proto)
	c.Max = max
	c.Live = live
	r := newRunner(c)
	for _, k := range path {
		if e, ok := r.build(k, g); ok {
			r.apply(e)
		}
	}
	for i := 0; i < 14; i++ {
		e, ok := r.build("fire", g)
		if !ok {
			break
		}
		r.apply(e)
	}
	// afterwards a stale expiry (if one is left) must not revive anything
	if e, ok := r.build("fire-stale", g); ok {
		r.apply(e)
	}
	return r.finish("gen:exhaust")
}

var exhaustPaths = [][]string{
	{"open", "up"},                                  // Req-Sent, configure phase
	{"up", "open"},                                  // the other order
	{"open", "up", "rcr+"},                          // Ack-Sent
	{"open", "up", "rcr-nak"},                       // Req-Sent after a Nak sent
	{"open", "up", "rcn"},                           // counter re-initialised by a Nak received
	{"open", "up", "rcj"},                           //
	{"open", "up", "fire", "rcr+"},                  // one retransmission used, then Ack-Sent
	{"open", "up", "close"},                         // Closing from Req-Sent: terminate phase
	{"open", "up", "rcr+", "close"},                 // Closing from Ack-Sent
	{"open", "up", "rcr+", "rca", "close"},          // Closing from Opened
	{"open", "up", "rca", "close"},                  // Closing from Ack-Rcvd
	{"open", "up", "close", "open"},                 // Stopping
	{"open", "up", "rcr+", "rca", "rcr+"},           // renegotiation from Opened: Ack-Sent with the old counter
	{"open", "up", "rcr+", "rca", "rcr-nak"},        // ... Req-Sent
	{"open", "up", "rcr+", "rca", "rca"},            // second Ack in Opened
	{"open", "up", "rcr+", "rca", "rta"},            // Terminate-Ack in Opened
	{"open", "up", "rtr", "rcr+"},                   // Stopped, then a request restarts the negotiation
	{"open", "up", "rcr+", "rca", "cj-crit"},        // LCP: critical Code-Reject closes
	{"open", "up", "rcr+", "rca", "pj-lcp"},         // LCP: Protocol-Reject of LCP closes
	{"open", "up", "down", "up"},                    // second incarnation
	{"open", "up", "rcr+", "rca", "down", "up"},     //
	{"open", "up", "close", "fire", "fire", "open"}, // Closing partly run down, then re-opened
}

const header = `From Coq Require Import ZArith NArith List. Import ListNotations.
From Verif Require Import Base.Word Model.Fsm Model.FsmCheck.
Local Open Scope N_scope.
Definition R := Eval vm_compute in run_cases [
`
const footer = `
].
Print R.
`

func probeShortEcho() {
	defer func() {
		if recover() != nil {
			shortEchoOK = false
		}
	}()
	r := newRunner(Case{Proto: "lcp", Magic: 5, MRU: 1492, Auth: pppoe.ProtocolPAP, Max: 3})
	r.m.Open()
	r.m.Up()
	r.m.ReceivePacket(pktBytes(1, 1, opt(1, be16(1400)...)))
	r.m.ReceivePacket(pktBytes(2, r.m.VerifSnapshot().LastIdentifier, nil))
	if r.m.VerifSnapshot().State != 9 {
		panic("probe: negotiation did not open")
	}
	r.m.ReceivePacket(pktBytes(9, 1, []byte{1}))
}

func main() {
	cfg := vh.ParseFlags()
	probeShortEcho()
	if cfg.Replay != "" {
		var c Case
		if err := vh.LoadReplay(cfg.Replay, &c); err != nil {
			panic(err)
		}
		vh.Emit(cfg, "cases", header, footer, []vh.Case{replay(c)}, nil)
		return
	}
	var corpus []vh.Case
	for _, f := range vh.CorpusFiles(cfg) {
		var c Case
		if err := vh.LoadReplay(f, &c); err != nil {
			panic(err)
		}
		vc := replay(c)
		vc.Tags = append(vc.Tags, "corpus:"+strings.TrimSuffix(f[strings.LastIndex(f, "/")+1:], ".json"))
		corpus = append(corpus, vc)
	}
	if len(corpus) > 0 {
		vh.Emit(cfg, "corpus", header, footer, corpus, nil)
	}
	g := vh.NewRng(cfg.Seed)
	protos := []string{"lcp", "ipcp", "ipv6cp"}
	extra := map[string]interface{}{"short_echo_class": shortEchoOK}

	// 1. breadth-first exploration to a fixed point of fingerprints (clause 6 off: safety clauses)
	var bfsCases []vh.Case
	maxStates := 100000
	fix := map[string]int{}
	for i, bc := range bfsCfgs() {
		if !cfg.Thorough() && i == 2 {
			continue
		}
		cs, n := bfs(bc, g.Fork(), maxStates, !cfg.Thorough())
		bfsCases = append(bfsCases, cs...)
		fix[fmt.Sprintf("%s#%d", bc.Proto, i)] = n
	}
	extra["bfs_fingerprints"] = fix
	extra["exhaustive"] = cfg.Thorough()
	vh.Emit(cfg, "bfs", header, footer, bfsCases, extra)

	// 2. random sequences, 3. silent peer; each also with the always-terminates clause switched on
	nrand, depth, nsil := 400, 8, 120
	if cfg.Thorough() {
		nrand, depth, nsil = 8000, 24, 1500
	}
	var rnd, sil, live []vh.Case
	for i := 0; i < nrand; i++ {
		rnd = append(rnd, randomCase(g.Fork(), protos[i%3], depth, false))
	}
	for i := 0; i < nsil; i++ {
		sil = append(sil, silentCase(g.Fork(), protos[i%3], (i/3)%4, false))
	}
	for i := 0; i < nrand/2; i++ {
		live = append(live, randomCase(g.Fork(), protos[i%3], depth, true))
	}
	for i := 0; i < nsil/2; i++ {
		live = append(live, silentCase(g.Fork(), protos[i%3], (i/3)%4, true))
	}
	vh.Emit(cfg, "random", header, footer, rnd, nil)
	vh.Emit(cfg, "silent", header, footer, sil, nil)

	// 4. option values at their acceptance boundaries in every state (deterministic, enumerated)
	vh.Emit(cfg, "optsweep", header, footer, sweep(g.Fork(), cfg.Thorough()),
		map[string]interface{}{"exhaustive": true, "space": "option variants (boundary sets, lengths, own values, unknown, dup, reorder, data-less last) x states"})

	// 5. renegotiation across Down/Up and Close/Open, identifier wrap, counter exhaustion per phase
	nren, nwrap := 150, 1
	maxes := []int{1, 2, 0}
	if cfg.Thorough() {
		nren, nwrap = 1500, 4
		maxes = []int{1, 2, 3, 10, 0, -1}
	}
	var ren, exh []vh.Case
	for i := 0; i < nren; i++ {
		ren = append(ren, renegCase(g.Fork(), protos[i%3], false))
	}
	for i := 0; i < nwrap*3; i++ {
		ren = append(ren, wrapCase(g.Fork(), protos[i%3], 244+4*(i/3)))
	}
	for pi, proto := range protos {
		for mi, mx := range maxes {
			for xi, p := range exhaustPaths {
				on := (pi+mi+xi)%2 == 0
				if cfg.Thorough() {
					exh = append(exh, exhaustCase(g.Fork(), proto, mx, p, false))
					on = true
				}
				c := exhaustCase(g.Fork(), proto, mx, p, on)
				if on {
					live = append(live, c)
				} else {
					exh = append(exh, c)
				}
			}
		}
	}
	for i := 0; i < nren/3; i++ {
		live = append(live, renegCase(g.Fork(), protos[i%3], true))
	}
	vh.Emit(cfg, "reneg", header, footer, ren, nil)
	vh.Emit(cfg, "exhaust", header, footer, exh, map[string]interface{}{"exhaustive": true, "space": "protocol x configured count x phase path, then expiries to the end"})
	vh.Emit(cfg, "live", header, footer, live, nil)
}
