package main

import (
	"fmt"
	"net"
	"path/filepath"

	"github.com/codelaboratoryltd/bng/pkg/antispoof"
	"github.com/codelaboratoryltd/bng/pkg/nat"
	"github.com/codelaboratoryltd/bng/pkg/qos"
	"go.uber.org/zap"
	"verifharness/bpfrun"
)

func main() {
	dir, _ := bpfrun.Dir()
	o, err := bpfrun.LoadObject(filepath.Join(dir, "nat44.o"))
	fmt.Println(err, o.KernelBPF, o.VerifierOK, o.LoadErr)
	m, _ := nat.NewManager(nat.ManagerConfig{Interface: "verif0", EnableHairpin: true}, zap.NewNop())
	m.VerifInjectMaps(nat.VerifNATMaps{SubscriberNAT: o.Map("subscriber_nat"), NATStats: o.Map("nat_stats_map"), HairpinIPs: o.Map("hairpin_ips"), NATSessions: o.Map("nat_sessions"), EIMTable: o.Map("eim_table"), ALGPorts: o.Map("alg_ports"), NATConfig: o.Map("nat_config_map")})
	st, err := m.GetStats()
	fmt.Println(st, err)
	key := make([]byte, 16)
	copy(key, []byte{1, 0, 0, 10, 8, 8, 8, 8, 0x34, 0x12, 0x50, 0, 6, 0, 0, 0})
	val := make([]byte, 80)
	for i := range val {
		val[i] = byte(i)
	}
	fmt.Println(o.Put("nat_sessions", key, val))
	s, err := m.LookupSession(net.ParseIP("10.0.0.1"), net.ParseIP("8.8.8.8"), 0x1234, 0x50, 6)
	fmt.Printf("%+v %v\n", s, err)
	q, _ := bpfrun.LoadObject(filepath.Join(dir, "qos_ratelimit.o"))
	qm, _ := qos.NewManager(qos.ManagerConfig{Interface: "verif0"}, nil, zap.NewNop())
	qm.VerifInjectMaps(q.Map("qos_egress"), q.Map("qos_ingress"), q.Map("qos_stats_map"))
	qs, err := qm.GetStats()
	fmt.Println(qs, err)
	a, _ := bpfrun.LoadObject(filepath.Join(dir, "antispoof.o"))
	am, _ := antispoof.NewManager(antispoof.ManagerConfig{Interface: "verif0"}, zap.NewNop())
	am.VerifInjectMaps(a.Map("subscriber_bindings"), a.Map("antispoof_config"), a.Map("antispoof_stats"), a.Map("allowed_ranges_v4"))
	as, err := am.GetStats()
	fmt.Println(as, err)
}
