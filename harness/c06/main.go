// C06 correspondence driver: map layouts and key encodings, Go control plane vs eBPF programs.
//
// Inputs : the side-car of tools/gen_layouts ($VERIF_C06_LAYOUTS: the regenerated (Go type, C type, map)
//
//	triples), the freshly compiled objects ($VERIF_BPF_DIR) and the offsetof tables compiled from the
//	same sources ($VERIF_C06_OFFS: c06_offs_<obj>.{bpf,x86}.o).
//
// Streams: layouts  one case per generated pair: the compilers' own offsetof/sizeof tables; real Go values Put
//
//	by cilium/ebpf (through the real Loader / managers where they have the path) into kernel maps
//	of the C-declared size and read back raw; raw bytes read through the real Go readers.
//	keys     one observation per case: the bytes the real Go code leaves in the kernel map and whether the
//	real eBPF program (BPF_PROG_TEST_RUN) finds / honours them (MAC, IPv4 sites, circuit-id of every
//	length 0..64, VLAN pair, ALG port key, LPM key), plus HashCircuitID against the Model.
//	corpus   stored witnesses.
package main

import (
	"bytes"
	"debug/elf"
	"encoding/binary"
	"encoding/json"
	"fmt"
	"net"
	"os"
	"path/filepath"
	"reflect"
	"strings"

	"verifharness/bpfrun"
	"verifharness/vh"

	cebpf "github.com/cilium/ebpf"
	"github.com/codelaboratoryltd/bng/pkg/antispoof"
	bngebpf "github.com/codelaboratoryltd/bng/pkg/ebpf"
	"github.com/codelaboratoryltd/bng/pkg/nat"
	"github.com/codelaboratoryltd/bng/pkg/qos"
	"go.uber.org/zap"
)

// ------------------------------------------------------------------------------ side-car

type Field struct {
	Name  string `json:"name"`
	Off   int    `json:"off"`
	Width int    `json:"width"`
	Count int    `json:"count"`
	Pad   bool   `json:"pad"`
}
type Pair struct {
	ID      string  `json:"id"`
	Name    string  `json:"name"`
	Object  string  `json:"object"`
	Map     string  `json:"map"`
	Role    string  `json:"role"`
	GoPkg   string  `json:"go_pkg"`
	GoType  string  `json:"go_type"`
	GoLocal string  `json:"go_local"`
	CType   string  `json:"c_type"`
	Go      []Field `json:"go"`
	C       []Field `json:"c"`
	GoSize  int     `json:"go_size"`
	CSize   int     `json:"c_size"`
	Decl    int     `json:"decl"`
	PerCPU  bool    `json:"percpu"`
	Slice   bool    `json:"slice"`
	Writes  bool    `json:"writes"`
	Reads   bool    `json:"reads"`
	MapType string  `json:"map_type"`
}
type SideCar struct {
	Pairs []*Pair `json:"pairs"`
}

// ------------------------------------------------------------------------------ case descriptions (replayable)

type Desc struct {
	Kind  string     `json:"kind"` // layout | mac | ip | cid | cidat | vlan | alg | lpm | hash | val | port
	Pair  string     `json:"pair,omitempty"`
	Field string     `json:"field,omitempty"`
	Vals  [][][]uint64 `json:"vals,omitempty"` // layout: value tuples for OPut
	Raws  [][]byte   `json:"raws,omitempty"` // layout: raw byte strings for OGet
	Mac   []byte     `json:"mac,omitempty"`
	Site  int        `json:"site,omitempty"`
	IP    []byte     `json:"ip,omitempty"`
	Cid   []byte     `json:"cid,omitempty"`
	S     uint16     `json:"s,omitempty"`
	C     uint16     `json:"c,omitempty"`
	P1    uint8      `json:"p1,omitempty"`
	P2    uint8      `json:"p2,omitempty"`
	Port  uint16     `json:"port,omitempty"`
	Proto uint8      `json:"proto,omitempty"`
	Plen  int        `json:"plen,omitempty"`
	Src   []byte     `json:"src,omitempty"`
	Pos   int        `json:"pos,omitempty"`    // cidat: options offset of option 82 (3 or 12..19)
	Lay   int        `json:"lay,omitempty"`    // cidat: 0 = circuit-id + remote-id sub-options, 1 = circuit-id only
	Fam   int        `json:"fam,omitempty"`    // val: 1 = IPv6 source binding, 2 = DHCP server MAC
	Val   []byte     `json:"val,omitempty"`    // val: the wire bytes of the value the API is called with
}

// ------------------------------------------------------------------------------ environment

type env struct {
	dir     string
	objs    map[string]*bpfrun.Object
	kernel  bool
	pairs   map[string]*Pair
	order   []*Pair
	offs    map[string]map[string][]uint64 // target -> ctype -> table
	loader  *bngebpf.Loader
	natm    *nat.Manager
	qosm    *qos.Manager
	asm     *antispoof.Manager
	runs    int
	skipped map[string]string
	errs    []string
}

func must(err error) {
	if err != nil {
		panic(err)
	}
}

func newEnv() *env {
	e := &env{objs: map[string]*bpfrun.Object{}, pairs: map[string]*Pair{}, offs: map[string]map[string][]uint64{}, skipped: map[string]string{}}
	var err error
	e.dir, err = bpfrun.Dir()
	must(err)
	e.kernel = true
	for _, n := range []string{"dhcp_fastpath", "nat44", "qos_ratelimit", "antispoof"} {
		o, err := bpfrun.LoadObject(filepath.Join(e.dir, n+".o"))
		if err != nil {
			e.errs = append(e.errs, fmt.Sprintf("object %s: %v", n, err))
			e.kernel = false
			continue
		}
		e.objs[n] = o
		if !o.KernelBPF || !o.VerifierOK {
			e.kernel = false
			e.errs = append(e.errs, fmt.Sprintf("object %s: kernel_bpf=%v verifier_ok=%v %s", n, o.KernelBPF, o.VerifierOK, o.LoadErr))
		}
	}
	b, err := os.ReadFile(os.Getenv("VERIF_C06_LAYOUTS"))
	must(err)
	var sc SideCar
	must(json.Unmarshal(b, &sc))
	for _, p := range sc.Pairs {
		e.pairs[p.Name] = p
		e.order = append(e.order, p)
	}
	e.loadOffs()
	if e.kernel {
		e.setupManagers()
	}
	return e
}

func (e *env) m(obj, name string) *cebpf.Map { return e.objs[obj].Map(name) }

func (e *env) setupManagers() {
	lg := zap.NewNop()
	var err error
	e.loader, err = bngebpf.NewLoader("verif0", lg)
	must(err)
	e.loader.VerifInjectDHCPMaps(bngebpf.VerifDHCPMaps{
		SubscriberPools: e.m("dhcp_fastpath", "subscriber_pools"), VLANSubscriberPools: e.m("dhcp_fastpath", "vlan_subscriber_pools"),
		IPPools: e.m("dhcp_fastpath", "ip_pools"), Stats: e.m("dhcp_fastpath", "stats_map"), ServerConfig: e.m("dhcp_fastpath", "server_config"),
		CircuitIDMap: e.m("dhcp_fastpath", "circuit_id_map"), CircuitIDSubscribers: e.m("dhcp_fastpath", "circuit_id_subscribers")})
	e.newNat()
	e.qosm, err = qos.NewManager(qos.ManagerConfig{Interface: "verif0"}, nil, lg)
	must(err)
	e.qosm.VerifInjectMaps(e.m("qos_ratelimit", "qos_egress"), e.m("qos_ratelimit", "qos_ingress"), e.m("qos_ratelimit", "qos_stats_map"))
	e.asm, err = antispoof.NewManager(antispoof.ManagerConfig{Interface: "verif0", DefaultMode: antispoof.ModeStrict}, lg)
	must(err)
	e.asm.VerifInjectMaps(e.m("antispoof", "subscriber_bindings"), e.m("antispoof", "antispoof_config"), e.m("antispoof", "antispoof_stats"), e.m("antispoof", "allowed_ranges_v4"))
}

func (e *env) newNat() {
	var err error
	e.natm, err = nat.NewManager(nat.ManagerConfig{Interface: "verif0", EnableHairpin: true}, zap.NewNop())
	must(err)
	e.natm.VerifInjectMaps(nat.VerifNATMaps{SubscriberNAT: e.m("nat44", "subscriber_nat"), NATSessions: e.m("nat44", "nat_sessions"),
		NATReverse: e.m("nat44", "nat_reverse"), NATPool: e.m("nat44", "nat_pool"), NATStats: e.m("nat44", "nat_stats_map"),
		NATConfig: e.m("nat44", "nat_config_map"), EIMTable: e.m("nat44", "eim_table"), HairpinIPs: e.m("nat44", "hairpin_ips"),
		ALGPorts: e.m("nat44", "alg_ports")})
}

// offsetof tables: symbol c06_offs in the objects the check compiled from the generated C files
func (e *env) loadOffs() {
	od := os.Getenv("VERIF_C06_OFFS")
	for _, tgt := range []string{"bpf", "x86"} {
		e.offs[tgt] = map[string][]uint64{}
		for _, obj := range []string{"dhcp_fastpath", "nat44", "qos_ratelimit", "antispoof"} {
			idxb, err := os.ReadFile(filepath.Join(od, "c06_offs_"+obj+".json"))
			if err != nil {
				continue
			}
			var idx []struct {
				CType  string   `json:"c_type"`
				Fields []string `json:"fields"`
			}
			must(json.Unmarshal(idxb, &idx))
			tab, err := readTable(filepath.Join(od, "c06_offs_"+obj+"."+tgt+".o"))
			if err != nil {
				e.errs = append(e.errs, fmt.Sprintf("offsetof table %s/%s: %v", obj, tgt, err))
				continue
			}
			pos := 0
			for _, ent := range idx {
				n := 1 + 2*len(ent.Fields)
				if pos+n > len(tab) {
					break
				}
				e.offs[tgt][obj+"/"+ent.CType] = tab[pos : pos+n]
				pos += n
			}
		}
	}
}

func readTable(path string) ([]uint64, error) {
	f, err := elf.Open(path)
	if err != nil {
		return nil, err
	}
	defer f.Close()
	syms, err := f.Symbols()
	if err != nil {
		return nil, err
	}
	for _, s := range syms {
		if s.Name != "c06_offs" {
			continue
		}
		sec := f.Sections[s.Section]
		data, err := sec.Data()
		if err != nil {
			return nil, err
		}
		off := s.Value
		if f.Type != elf.ET_REL {
			off -= sec.Addr
		}
		raw := data[off : off+s.Size]
		out := make([]uint64, len(raw)/8)
		for i := range out {
			out[i] = binary.LittleEndian.Uint64(raw[i*8:])
		}
		if len(out) == 0 || out[len(out)-1] != 0xC06C06C06 {
			return nil, fmt.Errorf("sentinel missing")
		}
		return out[:len(out)-1], nil
	}
	return nil, fmt.Errorf("symbol c06_offs not found")
}

// ------------------------------------------------------------------------------ Go type registry + reflection

var registry = map[string]reflect.Type{
	"ebpf.PoolAssignment": reflect.TypeOf(bngebpf.PoolAssignment{}), "ebpf.VLANKey": reflect.TypeOf(bngebpf.VLANKey{}),
	"ebpf.IPPool": reflect.TypeOf(bngebpf.IPPool{}), "ebpf.DHCPStats": reflect.TypeOf(bngebpf.DHCPStats{}),
	"ebpf.ServerConfig": reflect.TypeOf(bngebpf.ServerConfig{}), "ebpf.CircuitIDKey": reflect.TypeOf(bngebpf.CircuitIDKey{}),
	"nat.SubscriberNAT": reflect.TypeOf(nat.SubscriberNAT{}), "nat.NATSession": reflect.TypeOf(nat.NATSession{}),
	"nat.EIMKey": reflect.TypeOf(nat.EIMKey{}), "nat.EIMMapping": reflect.TypeOf(nat.EIMMapping{}),
	"nat.NATStats": reflect.TypeOf(nat.NATStats{}), "nat.NATConfig": reflect.TypeOf(nat.NATConfig{}),
	"nat.BPFLogEntry": reflect.TypeOf(nat.BPFLogEntry{}), "nat.ALGConfig": reflect.TypeOf(nat.ALGConfig{}),
	"qos.TokenBucket": reflect.TypeOf(qos.TokenBucket{}), "qos.QoSStats": reflect.TypeOf(qos.QoSStats{}),
	"antispoof.SubscriberBinding": reflect.TypeOf(antispoof.SubscriberBinding{}), "antispoof.Config": reflect.TypeOf(antispoof.Config{}),
	"antispoof.Stats": reflect.TypeOf(antispoof.Stats{}), "antispoof.SpoofEvent": reflect.TypeOf(antispoof.SpoofEvent{}),
}

func goType(p *Pair) reflect.Type {
	switch p.GoType {
	case "uint8":
		return reflect.TypeOf(uint8(0))
	case "uint16":
		return reflect.TypeOf(uint16(0))
	case "uint32":
		return reflect.TypeOf(uint32(0))
	case "uint64":
		return reflect.TypeOf(uint64(0))
	}
	return registry[p.GoPkg+"."+p.GoType]
}

func fill(v reflect.Value, vs *[][]uint64) {
	switch v.Kind() {
	case reflect.Uint8, reflect.Uint16, reflect.Uint32, reflect.Uint64:
		v.SetUint((*vs)[0][0])
		*vs = (*vs)[1:]
	case reflect.Array:
		for i := 0; i < v.Len(); i++ {
			v.Index(i).SetUint((*vs)[0][i])
		}
		*vs = (*vs)[1:]
	case reflect.Struct:
		for i := 0; i < v.NumField(); i++ {
			if v.Type().Field(i).Name == "_" {
				continue
			}
			fill(v.Field(i), vs)
		}
	default:
		panic("unsupported kind " + v.Kind().String())
	}
}

func flat(v reflect.Value, out *[][]uint64) {
	switch v.Kind() {
	case reflect.Uint8, reflect.Uint16, reflect.Uint32, reflect.Uint64:
		*out = append(*out, []uint64{v.Uint()})
	case reflect.Array:
		var l []uint64
		for i := 0; i < v.Len(); i++ {
			l = append(l, v.Index(i).Uint())
		}
		*out = append(*out, l)
	case reflect.Struct:
		for i := 0; i < v.NumField(); i++ {
			if v.Type().Field(i).Name == "_" {
				continue
			}
			flat(v.Field(i), out)
		}
	default:
		panic("unsupported kind " + v.Kind().String())
	}
}

// ------------------------------------------------------------------------------ Coq printing

func nl(l []uint64) string {
	s := make([]string, len(l))
	for i, x := range l {
		s[i] = fmt.Sprintf("%d", x)
	}
	return "[" + strings.Join(s, ";") + "]"
}
func nll(l [][]uint64) string {
	s := make([]string, len(l))
	for i, x := range l {
		s[i] = nl(x)
	}
	return "[" + strings.Join(s, "; ") + "]"
}
func bl(b []byte) []uint64 {
	l := make([]uint64, len(b))
	for i, x := range b {
		l[i] = uint64(x)
	}
	return l
}
func b2n(b bool) uint64 {
	if b {
		return 1
	}
	return 0
}

type obs struct{ op, out string }

func caseTerm(os []obs) string {
	s := make([]string, len(os))
	for i, o := range os {
		s[i] = "(" + o.op + ",\n   " + o.out + ")"
	}
	return "[" + strings.Join(s, ";\n  ") + "]"
}

// ------------------------------------------------------------------------------ layouts stream

func (e *env) rawKeyFor(p *Pair, r *vh.Rng) []byte {
	o := e.objs[p.Object]
	ks, _, _ := o.Sizes(p.Map)
	k := make([]byte, ks)
	switch o.Spec.Maps[p.Map].Type {
	case cebpf.Array, cebpf.PerCPUArray:
	case cebpf.LPMTrie:
		copy(k, r.Bytes(int(ks)))
		binary.LittleEndian.PutUint32(k, 32)
	default:
		copy(k, r.Bytes(int(ks)))
	}
	return k
}

func isArrayMap(t cebpf.MapType) bool { return t == cebpf.Array || t == cebpf.PerCPUArray }

// genVals: value tuples for the non-padding Go members
func genVals(p *Pair, r *vh.Rng, mode int) [][]uint64 {
	var vs [][]uint64
	n := uint64(1)
	for _, f := range p.Go {
		if f.Pad {
			continue
		}
		maxv := uint64(1)<<(8*uint(f.Width)) - 1
		if f.Width == 8 {
			maxv = ^uint64(0)
		}
		l := make([]uint64, f.Count)
		for i := range l {
			switch mode {
			case 0:
				l[i] = 0
			case 1:
				l[i] = maxv
			case 2: // distinct recognisable values: member index in every byte position
				l[i] = (n * 0x0101010101010101) & maxv
				n++
			default:
				l[i] = r.U64() & maxv
			}
		}
		vs = append(vs, l)
	}
	return vs
}

func (e *env) layoutCase(p *Pair, d Desc) vh.Case {
	record := p.Role == "record"
	rec := "false"
	if record {
		rec = "true"
	}
	var os_ []obs
	tags := []string{"pair", "role:" + p.Role}
	// (a) the compilers' own tables
	if strings.HasPrefix(p.CType, "struct ") {
		for ti, tgt := range []string{"bpf", "x86"} {
			tab, ok := e.offs[tgt][p.Object+"/"+p.CType]
			if !ok {
				e.errs = append(e.errs, "no offsetof table for "+p.Name+" ("+tgt+")")
				continue
			}
			out := [][]uint64{{tab[0]}}
			for i := 1; i+1 < len(tab); i += 2 {
				out = append(out, []uint64{tab[i], tab[i+1]})
			}
			os_ = append(os_, obs{fmt.Sprintf("OCLayout pair_%s %d", p.ID, ti), nll(out)})
		}
		tags = append(tags, "offsetof-tables")
	}
	gt := goType(p)
	if !e.kernel && !record {
		return vh.Case{Coq: caseTerm(os_), Desc: d, Tags: append(tags, "no-kernel")}
	}
	if gt == nil && p.GoLocal == "" {
		e.skipped[p.Name] = "Go type not in the driver's registry"
		return vh.Case{Coq: caseTerm(os_), Desc: d, Tags: append(tags, "unexercised")}
	}
	var mp *cebpf.Map
	var mt cebpf.MapType
	if !record {
		mp = e.m(p.Object, p.Map)
		mt = e.objs[p.Object].Spec.Maps[p.Map].Type
	}
	r := vh.NewRng(uint64(len(p.Name))*7919 + 17)
	// (b) writes
	if p.Writes && gt != nil {
		for _, vs := range d.Vals {
			if p.Role == "key" && isArrayMap(mt) {
				vs = [][]uint64{{0}}
			}
			if p.Role == "key" && mt == cebpf.PerCPUArray {
				e.skipped[p.Name] = "index key of a per-CPU array: key bytes are not observable; the uint32 key is exercised on the other arrays"
				break
			}
			if p.Role == "key" && mt == cebpf.LPMTrie {
				break
			}
			v := reflect.New(gt)
			tmp := append([][]uint64(nil), vs...)
			fill(v.Elem(), &tmp)
			ok, raw := e.putObserve(p, mp, mt, v, r)
			os_ = append(os_, obs{fmt.Sprintf("OPut %s pair_%s %s", rec, p.ID, nll(vs)), nll([][]uint64{{b2n(ok)}, bl(raw)})})
			tags = append(tags, "put")
		}
	}
	// local key types: through the only code that can build them
	if p.GoLocal == "AddAllowedRange" && p.Role == "key" {
		for _, c := range [][]byte{{10, 0, 0, 0, 8}, {192, 168, 7, 0, 24}, {1, 2, 3, 4, 32}, {0, 0, 0, 0, 0}, {100, 64, 0, 0, 10}} {
			e.clear("antispoof", "allowed_ranges_v4")
			_, n, _ := net.ParseCIDR(fmt.Sprintf("%d.%d.%d.%d/%d", c[0], c[1], c[2], c[3], c[4]))
			err := e.asm.AddAllowedRange(n)
			kvs, _ := e.objs["antispoof"].Dump("allowed_ranges_v4")
			var raw []byte
			if len(kvs) == 1 {
				raw = kvs[0].Key
			}
			vs := [][]uint64{{uint64(c[4])}, {uint64(binary.BigEndian.Uint32(n.IP.To4()))}}
			os_ = append(os_, obs{fmt.Sprintf("OPut false pair_%s %s", p.ID, nll(vs)), nll([][]uint64{{b2n(err == nil && len(kvs) == 1)}, bl(raw)})})
			tags = append(tags, "put", "via:antispoof.AddAllowedRange")
		}
	}
	if p.GoLocal == "LookupSession" && p.Role == "key" {
		for i := 0; i < 4; i++ {
			e.clear("nat44", "nat_sessions")
			src, dst := r.Bytes(4), r.Bytes(4)
			sp, dp, pr := uint16(r.U64()), uint16(r.U64()), uint8(r.U64())
			vs := [][]uint64{{uint64(binary.BigEndian.Uint32(src))}, {uint64(binary.BigEndian.Uint32(dst))}, {uint64(sp)}, {uint64(dp)}, {uint64(pr)}}
			// the key bytes a sequential little-endian marshalling of (SrcIP, DstIP, SrcPort, DstPort, Protocol, pad[3]) gives
			key := make([]byte, 16)
			binary.LittleEndian.PutUint32(key[0:], binary.BigEndian.Uint32(src))
			binary.LittleEndian.PutUint32(key[4:], binary.BigEndian.Uint32(dst))
			binary.LittleEndian.PutUint16(key[8:], sp)
			binary.LittleEndian.PutUint16(key[10:], dp)
			key[12] = pr
			_, vsz, _ := e.objs["nat44"].Sizes("nat_sessions")
			perr := e.objs["nat44"].Put("nat_sessions", key, make([]byte, vsz))
			_, lerr := e.natm.LookupSession(net.IP(src), net.IP(dst), sp, dp, pr)
			found := perr == nil && lerr == nil
			raw := key
			if !found {
				raw = nil
			}
			os_ = append(os_, obs{fmt.Sprintf("OPut false pair_%s %s", p.ID, nll(vs)), nll([][]uint64{{b2n(found)}, bl(raw)})})
			tags = append(tags, "put", "via:nat.LookupSession")
		}
	}
	// (c) reads
	if p.Reads && gt != nil {
		for _, raw := range d.Raws {
			ok, vals := e.getObserve(p, mp, mt, gt, raw, r)
			out := [][]uint64{{b2n(ok)}}
			if ok {
				out = append(out, vals...)
			}
			os_ = append(os_, obs{fmt.Sprintf("OGet %s pair_%s %s", rec, p.ID, nl(bl(raw))), nll(out)})
			tags = append(tags, "get")
		}
	}
	if len(os_) == 0 || (!strings.Contains(strings.Join(tags, " "), "put") && !strings.Contains(strings.Join(tags, " "), "get")) {
		if _, ok := e.skipped[p.Name]; !ok {
			e.skipped[p.Name] = "no write or read observation possible"
		}
		tags = append(tags, "unexercised")
	}
	return vh.Case{Coq: caseTerm(os_), Desc: d, Tags: tags}
}

func (e *env) clear(obj, name string) {
	o := e.objs[obj]
	t := o.Spec.Maps[name].Type
	if isArrayMap(t) {
		return
	}
	o.Clear(name)
}

// putObserve writes the Go value (through the real Loader where it has the path) and returns the raw bytes
func (e *env) putObserve(p *Pair, mp *cebpf.Map, mt cebpf.MapType, v reflect.Value, r *vh.Rng) (bool, []byte) {
	e.clear(p.Object, p.Map)
	o := e.objs[p.Object]
	if p.Role == "value" {
		key := e.rawKeyFor(p, r)
		var err error
		switch x := v.Interface().(type) {
		case *bngebpf.PoolAssignment:
			switch p.Map {
			case "subscriber_pools":
				err = e.loader.AddSubscriber(binary.LittleEndian.Uint64(key), x)
			case "vlan_subscriber_pools":
				err = e.loader.AddVLANSubscriber(binary.LittleEndian.Uint16(key), binary.LittleEndian.Uint16(key[2:]), x)
			default:
				err = mp.Put(key, x)
			}
		case *bngebpf.IPPool:
			err = e.loader.AddPool(binary.LittleEndian.Uint32(key), x)
		default:
			err = mp.Put(key, v.Interface())
		}
		if err != nil {
			return false, nil
		}
		raw, err := mp.LookupBytes(key)
		if err != nil || raw == nil {
			return false, nil
		}
		return true, raw
	}
	// key: Put(&goKey, zero value), then dump the only entry
	_, vsz, _ := o.Sizes(p.Map)
	if err := mp.Put(v.Interface(), make([]byte, vsz)); err != nil {
		return false, nil
	}
	kvs, err := o.Dump(p.Map)
	if err != nil || len(kvs) != 1 {
		return false, nil
	}
	return true, kvs[0].Key
}

// getObserve places raw bytes in the kernel map and reads them with the real Go reader
func (e *env) getObserve(p *Pair, mp *cebpf.Map, mt cebpf.MapType, gt reflect.Type, raw []byte, r *vh.Rng) (bool, [][]uint64) {
	var vals [][]uint64
	if p.Role == "record" {
		// the reader sketched in nat.readLogRingBuffer: binary.Read(bytes.NewReader(sample), LittleEndian, &entry)
		v := reflect.New(gt)
		if err := binary.Read(bytes.NewReader(raw), binary.LittleEndian, v.Interface()); err != nil {
			return false, nil
		}
		flat(v.Elem(), &vals)
		return true, vals
	}
	e.clear(p.Object, p.Map)
	key := e.rawKeyFor(p, r)
	if p.PerCPU {
		n := possibleCPUs()
		per := make([][]byte, n)
		for i := range per {
			per[i] = make([]byte, len(raw))
		}
		per[0] = raw
		if err := mp.Put(key, per); err != nil {
			return false, nil
		}
		var res interface{}
		var err error
		switch p.Map { // real readers (they sum over the CPUs; only CPU 0 is non-zero)
		case "nat_stats_map":
			res, err = e.natm.GetStats()
		case "qos_stats_map":
			res, err = e.qosm.GetStats()
		case "antispoof_stats":
			res, err = e.asm.GetStats()
		default:
			sl := reflect.New(reflect.SliceOf(gt))
			err = mp.Lookup(key, sl.Interface())
			if err == nil {
				res = sl.Elem().Index(0).Addr().Interface()
			}
		}
		if err != nil {
			return false, nil
		}
		flat(reflect.ValueOf(res).Elem(), &vals)
		return true, vals
	}
	if err := mp.Put(key, raw); err != nil {
		return false, nil
	}
	var res interface{}
	var err error
	switch {
	case p.Map == "subscriber_pools":
		res, err = e.loader.GetSubscriber(binary.LittleEndian.Uint64(key))
	case p.Map == "ip_pools":
		res, err = e.loader.GetPool(binary.LittleEndian.Uint32(key))
	case p.Map == "stats_map":
		res, err = e.loader.GetStats()
	case p.Map == "server_config":
		res, err = e.loader.GetServerConfig()
	case p.Map == "vlan_subscriber_pools":
		res, err = e.loader.GetVLANSubscriber(binary.LittleEndian.Uint16(key), binary.LittleEndian.Uint16(key[2:]))
	default:
		v := reflect.New(gt)
		err = mp.Lookup(key, v.Interface())
		res = v.Interface()
	}
	if err != nil {
		return false, nil
	}
	flat(reflect.ValueOf(res).Elem(), &vals)
	return true, vals
}

func (e *env) layoutDesc(p *Pair, r *vh.Rng, n int) Desc {
	d := Desc{Kind: "layout", Pair: p.Name}
	for i := 0; i < n; i++ {
		d.Vals = append(d.Vals, genVals(p, r, i))
		sz := p.Decl
		raw := r.Bytes(sz)
		switch i {
		case 0:
			raw = make([]byte, sz)
		case 1:
			for j := range raw {
				raw[j] = 0xff
			}
		case 2:
			for j := range raw {
				raw[j] = byte(j + 1)
			}
		}
		d.Raws = append(d.Raws, raw)
	}
	return d
}

// ------------------------------------------------------------------------------ frames

func ethHdr(dst, src []byte, tags [][2]uint16, et uint16) []byte {
	f := append(append([]byte{}, dst...), src...)
	for _, t := range tags {
		f = append(f, byte(t[0]>>8), byte(t[0]), byte(t[1]>>8), byte(t[1]))
	}
	return append(f, byte(et>>8), byte(et))
}

func ipv4(src, dst []byte, proto byte, payload []byte) []byte {
	tl := 20 + len(payload)
	h := []byte{0x45, 0, byte(tl >> 8), byte(tl), 0, 1, 0, 0, 64, proto, 0, 0}
	h = append(h, src...)
	h = append(h, dst...)
	return append(h, payload...)
}

func udp(sp, dp uint16, payload []byte) []byte {
	l := 8 + len(payload)
	return append([]byte{byte(sp >> 8), byte(sp), byte(dp >> 8), byte(dp), byte(l >> 8), byte(l), 0, 0}, payload...)
}

func tcp(sp, dp uint16) []byte {
	h := make([]byte, 20)
	h[0], h[1], h[2], h[3] = byte(sp>>8), byte(sp), byte(dp>>8), byte(dp)
	h[12] = 5 << 4
	h[13] = 2 // SYN
	return h
}

// mkOpts: the 312-byte options area: message type at [0..2]; when cid != nil option 82 at offset pos (3, or 12..19
// behind a client-id option of the right length) in the sub-option layout the program expects: [82][len][1][cid_len][cid]
// followed (lay 0) by a remote-id sub-option.
func mkOpts(pos, lay int, cid []byte) []byte {
	o := make([]byte, 312)
	o[0], o[1], o[2] = 53, 1, 1
	if cid == nil {
		o[3] = 255
		return o
	}
	if pos != 3 {
		l := pos - 5
		o[3], o[4], o[5] = 61, byte(l), 1
		for i := 6; i < pos; i++ {
			o[i] = 0xaa
		}
	}
	n := 2 + len(cid)
	if lay == 0 {
		n += 4
	}
	o[pos], o[pos+1], o[pos+2], o[pos+3] = 82, byte(n), 1, byte(len(cid))
	copy(o[pos+4:], cid)
	e := pos + 4 + len(cid)
	if lay == 0 {
		copy(o[e:], []byte{2, 2, 'r', 'r'})
		e += 4
	}
	o[e] = 255
	return o
}

// DHCPDISCOVER: chaddr = the hardware address (hlen = its length, rest of the field zero)
func dhcpDiscover(mac, opts []byte) []byte {
	d := make([]byte, 240)
	d[0], d[1], d[2] = 1, 1, byte(len(mac))
	copy(d[4:], []byte{0xde, 0xad, 0xbe, 0xef})
	copy(d[28:44], mac)
	copy(d[236:], []byte{0x63, 0x82, 0x53, 0x63})
	return append(d, opts...)
}

func dhcpFrame(mac, cid []byte, tags [][2]uint16) []byte { return dhcpFrameOpts(mac, mkOpts(3, 0, cid), tags) }

func dhcpFrameOpts(mac, opts []byte, tags [][2]uint16) []byte {
	src := []byte{2, 0, 0, 0, 0, 0x77}
	if len(mac) == 6 {
		src = mac
	}
	f := append(append([]byte{}, []byte{0xff, 0xff, 0xff, 0xff, 0xff, 0xff}...), src...)
	for _, t := range tags { // (TPID, TCI) pairs
		f = append(f, byte(t[0]>>8), byte(t[0]), byte(t[1]>>8), byte(t[1]))
	}
	f = append(f, 0x08, 0x00)
	return append(f, ipv4([]byte{0, 0, 0, 0}, []byte{255, 255, 255, 255}, 17, udp(68, 67, dhcpDiscover(mac, opts)))...)
}

const maxU64 = ^uint64(0)

func normName(n string) string { return strings.ToLower(strings.ReplaceAll(n, "_", "")) }

// member: byte range of a C member inside a key / value, from the REGENERATED layout (so a moved or retyped member
// is still read where the C declaration now has it)
func (e *env) member(obj, mp, role, cname string) (off, size int) {
	for _, p := range e.order {
		if p.Object == obj && p.Map == mp && p.Role == role {
			for _, f := range p.C {
				if normName(f.Name) == normName(cname) {
					return f.Off, f.Width * f.Count
				}
			}
		}
	}
	e.errs = append(e.errs, fmt.Sprintf("regenerated layout has no member %s in %s/%s/%s", cname, obj, mp, role))
	return 0, 0
}

func cut(b []byte, off, size int) []byte {
	if off+size > len(b) {
		return nil
	}
	return b[off : off+size]
}

func ipv6(src, dst []byte, nh byte, payload []byte) []byte {
	h := []byte{0x60, 0, 0, 0, byte(len(payload) >> 8), byte(len(payload)), nh, 64}
	h = append(h, src...)
	h = append(h, dst...)
	return append(h, payload...)
}

// replyOption: value of option code in the options area of a fast-path reply (frame without VLAN tags)
func replyOption(out []byte, code byte) []byte {
	i := 14 + 20 + 8 + 240
	for i+1 < len(out) {
		c := out[i]
		if c == 255 {
			return nil
		}
		if c == 0 {
			i++
			continue
		}
		l := int(out[i+1])
		if i+2+l > len(out) {
			return nil
		}
		if c == code {
			return out[i+2 : i+2+l]
		}
		i += 2 + l
	}
	return nil
}

// soft records an error of the real code (the observation then shows a miss) instead of aborting the run
func (e *env) soft(err error) {
	if err != nil {
		msg := "real code returned an error: " + err.Error()
		for _, x := range e.errs {
			if x == msg {
				return
			}
		}
		e.errs = append(e.errs, msg)
	}
}

func (e *env) dhcpReset() {
	for _, n := range []string{"subscriber_pools", "vlan_subscriber_pools", "circuit_id_subscribers", "ip_pools", "circuit_id_map"} {
		e.objs["dhcp_fastpath"].Clear(n)
	}
	e.soft(e.loader.AddPool(1, &bngebpf.IPPool{PrefixLen: 24, LeaseTime: 3600}))
	e.soft(e.loader.SetServerConfig(net.HardwareAddr{2, 0, 0, 0, 0, 1}, net.IPv4(0, 0, 0, 0), 1))
}

func (e *env) runXDP(frame []byte) (uint32, []byte) {
	e.runs++
	v, out, err := e.objs["dhcp_fastpath"].RunXDP("dhcp_fastpath_prog", frame)
	if err != nil {
		e.errs = append(e.errs, "RunXDP: "+err.Error())
		return 0xffff, nil
	}
	return v, out
}

func (e *env) runTC(obj, prog string, frame []byte) (uint32, []byte) {
	e.runs++
	v, out, _, err := e.objs[obj].RunTC(prog, frame, nil)
	if err != nil {
		e.errs = append(e.errs, "RunTC "+prog+": "+err.Error())
		return 0xffff, nil
	}
	return v, out
}

// ------------------------------------------------------------------------------ key observations

func (e *env) keyCase(d Desc) vh.Case {
	var o obs
	tags := []string{d.Kind}
	switch d.Kind {
	case "mac": // hardware address of any length 0..16
		mac := net.HardwareAddr(d.Mac)
		pa := &bngebpf.PoolAssignment{PoolID: 1, LeaseExpiry: maxU64}
		// (a) pkg/dhcp: ebpf.MACToUint64(req.ClientHWAddr) -> Loader.AddSubscriber ; dhcp_fastpath_prog reads chaddr[0..5]
		e.dhcpReset()
		e.soft(e.loader.AddSubscriber(bngebpf.MACToUint64(mac), pa))
		kv, _ := e.objs["dhcp_fastpath"].Dump("subscriber_pools")
		v1, _ := e.runXDP(dhcpFrame(d.Mac, nil, nil))
		// (b) the C function alone: an entry at "first six bytes of the zero-padded chaddr, big-endian, as a native u64"
		chaddr := make([]byte, 16)
		copy(chaddr, d.Mac)
		var want uint64
		for i := 0; i < 6; i++ {
			want = want<<8 | uint64(chaddr[i])
		}
		wantb := make([]byte, 8)
		binary.LittleEndian.PutUint64(wantb, want)
		e.dhcpReset()
		e.soft(e.loader.AddSubscriber(want, pa))
		v1b, _ := e.runXDP(dhcpFrame(d.Mac, nil, nil))
		out := [][]uint64{bl(onlyKey(kv)), bl(wantb), {b2n(v1 == bpfrun.XDPTx), b2n(v1b == bpfrun.XDPTx)}}
		// (c) antispoof.AddBinding(mac, palindromic ip) ; antispoof_ingress with that source MAC and address
		e.objs["antispoof"].Clear("subscriber_bindings")
		e.soft(e.asm.SetMode(antispoof.ModeStrict))
		if err := e.asm.AddBinding(mac, net.IPv4(10, 7, 7, 10)); err != nil {
			kv2, _ := e.objs["antispoof"].Dump("subscriber_bindings")
			out = append(out, []uint64{0}, bl(onlyKey(kv2)), []uint64{1})
		} else {
			kv2, _ := e.objs["antispoof"].Dump("subscriber_bindings")
			src := d.Mac
			if len(src) != 6 {
				src = []byte{2, 0, 0, 0, 0, 0x78}
			}
			fr := append(ethHdr([]byte{2, 0, 0, 0, 0, 9}, src, nil, 0x0800), ipv4([]byte{10, 7, 7, 10}, []byte{8, 8, 8, 8}, 17, udp(1000, 53, make([]byte, 8)))...)
			v2, _ := e.runTC("antispoof", "antispoof_ingress", fr)
			out = append(out, []uint64{1}, bl(onlyKey(kv2)), []uint64{b2n(v2 == bpfrun.TCActOK)})
		}
		// (d) antispoof.RemoveBinding has no length check
		panicked := func() (p bool) {
			defer func() {
				if recover() != nil {
					p = true
				}
			}()
			e.asm.RemoveBinding(mac)
			return false
		}()
		out = append(out, []uint64{b2n(panicked)})
		o = obs{"OMac " + nl(bl(d.Mac)), nll(out)}
		tags = append(tags, fmt.Sprintf("maclen:%d", len(d.Mac)))
	case "ip":
		ip := net.IP(d.IP)
		var gob []byte
		hit := false
		switch d.Site {
		case 1: // pkg/dhcp: PoolAssignment.AllocatedIP = ebpf.IPToUint32(lease.IP) -> yiaddr of the reply
			e.dhcpReset()
			mac := []byte{2, 0, 0, 0, 0, 0x11}
			e.soft(e.loader.AddSubscriber(bngebpf.MACToUint64(mac), &bngebpf.PoolAssignment{PoolID: 1, AllocatedIP: bngebpf.IPToUint32(ip), LeaseExpiry: maxU64}))
			raw, _ := e.m("dhcp_fastpath", "subscriber_pools").LookupBytes(bngebpf.MACToUint64(mac))
			if len(raw) >= 8 {
				gob = raw[4:8]
			}
			v, out := e.runXDP(dhcpFrame(mac, nil, nil))
			hit = v == bpfrun.XDPTx && len(out) >= 14+20+8+20 && bytes.Equal(out[14+20+8+16:14+20+8+20], d.IP)
		case 5: // Loader.SetServerConfig: ServerIP = IPToUint32(serverIP) -> source address / siaddr of the reply
			e.dhcpReset()
			mac := []byte{2, 0, 0, 0, 0, 0x11}
			e.soft(e.loader.SetServerConfig(net.HardwareAddr{2, 0, 0, 0, 0, 1}, ip, 1))
			e.soft(e.loader.AddSubscriber(bngebpf.MACToUint64(mac), &bngebpf.PoolAssignment{PoolID: 1, LeaseExpiry: maxU64}))
			raw, _ := e.m("dhcp_fastpath", "server_config").LookupBytes(uint32(0))
			if len(raw) >= 12 {
				gob = raw[8:12]
			}
			v, out := e.runXDP(dhcpFrame(mac, nil, nil))
			hit = v == bpfrun.XDPTx && len(out) >= 34 && bytes.Equal(out[14+12:14+16], d.IP)
			if bytes.Equal(d.IP, []byte{0, 0, 0, 0}) { // 0 means "not configured": the program falls back to the pool gateway
				hit = true
			}
		case 7, 8: // pkg/dhcp/pool.go: IPPool.Gateway / DNSPrimary / DNSSecondary = ebpf.IPToUint32(...) -> router / DNS option of the reply
			e.dhcpReset()
			mac := []byte{2, 0, 0, 0, 0, 0x11}
			pool := &bngebpf.IPPool{PrefixLen: 24, LeaseTime: 3600, Gateway: bngebpf.IPToUint32(net.IPv4(10, 0, 0, 10))}
			memb, code := "gateway", byte(3)
			if d.Site == 7 {
				pool.Gateway = bngebpf.IPToUint32(ip)
			} else {
				pool.DNSPrimary, pool.DNSSecondary = bngebpf.IPToUint32(ip), bngebpf.IPToUint32(ip)
				memb, code = "dns_primary", 6
			}
			e.soft(e.loader.AddPool(1, pool))
			e.soft(e.loader.AddSubscriber(bngebpf.MACToUint64(mac), &bngebpf.PoolAssignment{PoolID: 1, LeaseExpiry: maxU64}))
			raw, _ := e.m("dhcp_fastpath", "ip_pools").LookupBytes(uint32(1))
			off, sz := e.member("dhcp_fastpath", "ip_pools", "value", memb)
			gob = cut(raw, off, sz)
			v, out := e.runXDP(dhcpFrame(mac, nil, nil))
			want := append([]byte{}, d.IP...)
			if d.Site == 8 {
				want = append(want, d.IP...)
				o2, s2 := e.member("dhcp_fastpath", "ip_pools", "value", "dns_secondary")
				if !bytes.Equal(cut(raw, o2, s2), gob) {
					e.errs = append(e.errs, "dns_primary and dns_secondary hold different bytes for the same address")
				}
			}
			hit = v == bpfrun.XDPTx && bytes.Equal(replyOption(out, code), want)
		case 2, 6: // nat.AllocateNAT: key ipToKey(private) ; value PortBlock.PublicIP = ipToKey(public)
			e.newNat()
			for _, n := range []string{"subscriber_nat", "nat_sessions", "nat_reverse", "eim_table", "hairpin_ips"} {
				e.objs["nat44"].Clear(n)
			}
			priv, pub := ip, net.IPv4(203, 0, 113, 77).To4()
			if d.Site == 6 {
				priv, pub = net.IPv4(10, 9, 9, 10).To4(), ip
			}
			e.soft(e.natm.AddPublicIP(pub))
			if _, err := e.natm.AllocateNAT(priv); err != nil {
				e.soft(err)
				break
			}
			kv, _ := e.objs["nat44"].Dump("subscriber_nat")
			fr := append(ethHdr([]byte{2, 0, 0, 0, 0, 9}, []byte{2, 0, 0, 0, 0, 8}, nil, 0x0800), ipv4(priv, []byte{8, 8, 8, 8}, 17, udp(4000, 53, make([]byte, 8)))...)
			_, out := e.runTC("nat44", "nat44_egress", fr)
			ss, _ := e.objs["nat44"].Dump("nat_sessions")
			if d.Site == 2 {
				gob = onlyKey(kv)
				hit = len(ss) == 1
			} else {
				if len(kv) == 1 {
					gob = kv[0].Value[0:4]
				}
				hit = len(ss) == 1 && len(out) >= 30 && bytes.Equal(out[14+12:14+16], d.IP)
			}
		case 3: // qos.SetSubscriberQoS: key ipToKey(ip) ; qos_egress_prog looks up ip->daddr
			e.objs["qos_ratelimit"].Clear("qos_egress")
			e.objs["qos_ratelimit"].Clear("qos_ingress")
			e.soft(e.qosm.SetSubscriberQoS(&qos.SubscriberQoS{IP: ip, DownloadBPS: 8000000, UploadBPS: 8000000}))
			kv, _ := e.objs["qos_ratelimit"].Dump("qos_egress")
			gob = onlyKey(kv)
			fr := append(ethHdr([]byte{2, 0, 0, 0, 0, 9}, []byte{2, 0, 0, 0, 0, 8}, nil, 0x0800), ipv4([]byte{8, 8, 8, 8}, ip, 17, udp(53, 4000, make([]byte, 8)))...)
			e.runTC("qos_ratelimit", "qos_egress_prog", fr)
			kv, _ = e.objs["qos_ratelimit"].Dump("qos_egress")
			hit = len(kv) == 1 && binary.LittleEndian.Uint64(kv[0].Value[8:16]) != 0 // last_update written = bucket found
		case 4: // antispoof.AddBinding: value ipv4_addr = BigEndian.Uint32(ip) ; strict mode compares with ip->saddr
			e.objs["antispoof"].Clear("subscriber_bindings")
			e.soft(e.asm.SetMode(antispoof.ModeStrict))
			mac := net.HardwareAddr{2, 0, 0, 0, 0, 0x22}
			e.soft(e.asm.AddBinding(mac, ip))
			kv, _ := e.objs["antispoof"].Dump("subscriber_bindings")
			if len(kv) == 1 {
				gob = kv[0].Value[0:4]
			}
			fr := append(ethHdr([]byte{2, 0, 0, 0, 0, 9}, mac, nil, 0x0800), ipv4(ip, []byte{8, 8, 8, 8}, 17, udp(1000, 53, make([]byte, 8)))...)
			v, _ := e.runTC("antispoof", "antispoof_ingress", fr)
			hit = v == bpfrun.TCActOK
		}
		o = obs{fmt.Sprintf("OIp %d %s", d.Site, nl(bl(d.IP))), nll([][]uint64{bl(gob), {b2n(hit)}})}
		tags = append(tags, fmt.Sprintf("site:%d", d.Site), fmt.Sprintf("palindrome:%v", d.IP[0] == d.IP[3] && d.IP[1] == d.IP[2]))
	case "val":
		var memb []byte
		hit := false
		switch d.Fam {
		case 1: // antispoof.AddBindingV6(mac, ip6): value member ipv6_addr ; antispoof_ingress compares it with ip6->saddr
			e.objs["antispoof"].Clear("subscriber_bindings")
			e.soft(e.asm.SetMode(antispoof.ModeStrict))
			mac := net.HardwareAddr{2, 0, 0, 0, 0, 0x66}
			if d.Site == 1 { // an IPv4 binding exists already (the usual order: DHCPv4 lease first)
				e.soft(e.asm.AddBinding(mac, net.IPv4(10, 7, 7, 10)))
			}
			e.soft(e.asm.AddBindingV6(mac, net.IP(d.Val)))
			kv, _ := e.objs["antispoof"].Dump("subscriber_bindings")
			off, sz := e.member("antispoof", "subscriber_bindings", "value", "ipv6_addr")
			if len(kv) == 1 {
				memb = cut(kv[0].Value, off, sz)
			}
			dst := []byte{0x20, 0x01, 0x48, 0x60, 0x48, 0x60, 0, 0, 0, 0, 0, 0, 0, 0, 0x88, 0x88}
			fr := append(ethHdr([]byte{2, 0, 0, 0, 0, 9}, mac, nil, 0x86dd), ipv6(d.Val, dst, 17, udp(1000, 53, make([]byte, 8)))...)
			v, _ := e.runTC("antispoof", "antispoof_ingress", fr)
			hit = v == bpfrun.TCActOK
			// sanity of the observation itself: another source address from the same MAC is dropped
			other := append([]byte{}, d.Val...)
			other[15] ^= 0x5a
			other[2] ^= 0xa5
			fr2 := append(ethHdr([]byte{2, 0, 0, 0, 0, 9}, mac, nil, 0x86dd), ipv6(other, dst, 17, udp(1000, 53, make([]byte, 8)))...)
			if v2, _ := e.runTC("antispoof", "antispoof_ingress", fr2); v2 != bpfrun.TCActShot {
				e.errs = append(e.errs, "antispoof_ingress did not drop an unbound IPv6 source in strict mode: the IPv6 observation does not discriminate")
			}
		case 2: // Loader.SetServerConfig(mac, ...): value member server_mac ; the reply's Ethernet source
			e.dhcpReset()
			cl := []byte{2, 0, 0, 0, 0, 0x12}
			e.soft(e.loader.SetServerConfig(net.HardwareAddr(d.Val), net.IPv4(0, 0, 0, 0), 1))
			e.soft(e.loader.AddSubscriber(bngebpf.MACToUint64(cl), &bngebpf.PoolAssignment{PoolID: 1, LeaseExpiry: maxU64}))
			raw, _ := e.m("dhcp_fastpath", "server_config").LookupBytes(uint32(0))
			off, sz := e.member("dhcp_fastpath", "server_config", "value", "server_mac")
			memb = cut(raw, off, sz)
			v, out := e.runXDP(dhcpFrame(cl, nil, nil))
			hit = v == bpfrun.XDPTx && len(out) >= 12 && len(d.Val) >= 6 && bytes.Equal(out[6:12], d.Val[:6])
		}
		o = obs{fmt.Sprintf("OVal %d %s", d.Fam, nl(bl(d.Val))), nll([][]uint64{bl(memb), {b2n(hit)}})}
		tags = append(tags, fmt.Sprintf("fam:%d", d.Fam), fmt.Sprintf("len:%d", len(d.Val)))
	case "port": // nat_key.src_port / dst_port: the kernel program creates the session, nat.LookupSession looks it up by NUMBER
		e.newNat()
		for _, n := range []string{"subscriber_nat", "nat_sessions", "nat_reverse", "eim_table", "hairpin_ips"} {
			e.objs["nat44"].Clear(n)
		}
		priv, dst := net.IPv4(10, 9, 9, 10).To4(), net.IPv4(8, 8, 8, 8).To4()
		e.soft(e.natm.AddPublicIP(net.IPv4(203, 0, 113, 77)))
		_, aerr := e.natm.AllocateNAT(priv)
		e.soft(aerr)
		sport, dport, memb := d.Port, uint16(0x3535), "src_port"
		if d.Site == 2 {
			sport, dport, memb = 0x3535, d.Port, "dst_port"
		}
		fr := append(ethHdr([]byte{2, 0, 0, 0, 0, 9}, []byte{2, 0, 0, 0, 0, 8}, nil, 0x0800), ipv4(priv, dst, 17, udp(sport, dport, make([]byte, 8)))...)
		e.runTC("nat44", "nat44_egress", fr)
		ss, _ := e.objs["nat44"].Dump("nat_sessions")
		var kb []byte
		if len(ss) == 1 {
			off, sz := e.member("nat44", "nat_sessions", "key", memb)
			kb = cut(ss[0].Key, off, sz)
		}
		_, lerr := e.natm.LookupSession(priv, dst, sport, dport, 17)
		o = obs{fmt.Sprintf("OPort %d %d", d.Site, d.Port), nll([][]uint64{bl(kb), {b2n(len(ss) == 1 && lerr == nil)}})}
		tags = append(tags, fmt.Sprintf("site:%d", d.Site), fmt.Sprintf("palindrome:%v", d.Port>>8 == d.Port&0xff))
	case "cid":
		e.dhcpReset()
		e.soft(e.loader.AddCircuitIDSubscriber(d.Cid, &bngebpf.PoolAssignment{PoolID: 1, LeaseExpiry: maxU64}))
		kv, _ := e.objs["dhcp_fastpath"].Dump("circuit_id_subscribers")
		cid := d.Cid
		if cid == nil {
			cid = []byte{}
		}
		v, _ := e.runXDP(dhcpFrame([]byte{2, 0, 0, 0, 0, 0x33}, cid, nil))
		mk := bngebpf.MakeCircuitIDKey(d.Cid)
		if !bytes.Equal(mk[:], onlyKey(kv)) {
			e.errs = append(e.errs, "MakeCircuitIDKey differs from the key AddCircuitIDSubscriber wrote")
		}
		o = obs{"OCid " + nl(bl(d.Cid)), nll([][]uint64{bl(onlyKey(kv)), {b2n(v == bpfrun.XDPTx)}})}
		tags = append(tags, fmt.Sprintf("len<=32:%v", len(d.Cid) >= 1 && len(d.Cid) <= 32))
	case "cidat":
		e.dhcpReset()
		e.soft(e.loader.AddCircuitIDSubscriber(d.Cid, &bngebpf.PoolAssignment{PoolID: 1, LeaseExpiry: maxU64}))
		kv, _ := e.objs["dhcp_fastpath"].Dump("circuit_id_subscribers")
		cid := d.Cid
		if cid == nil {
			cid = []byte{}
		}
		opts := mkOpts(d.Pos, d.Lay, cid)
		v, _ := e.runXDP(dhcpFrameOpts([]byte{2, 0, 0, 0, 0, 0x33}, opts, nil))
		mk := bngebpf.MakeCircuitIDKey(d.Cid)
		if !bytes.Equal(mk[:], onlyKey(kv)) {
			e.errs = append(e.errs, "MakeCircuitIDKey differs from the key AddCircuitIDSubscriber wrote")
		}
		trim := len(opts)
		for trim > 0 && opts[trim-1] == 0 {
			trim--
		}
		o = obs{fmt.Sprintf("OCidAt %d%%nat %s %d%%nat %s", d.Pos, nl(bl(opts[:trim])), len(opts), nl(bl(d.Cid))), nll([][]uint64{bl(onlyKey(kv)), {b2n(v == bpfrun.XDPTx)}})}
		tags = append(tags, fmt.Sprintf("pos:%d", d.Pos), fmt.Sprintf("lay:%d", d.Lay), fmt.Sprintf("len<=32:%v", len(d.Cid) >= 1 && len(d.Cid) <= 32))
	case "vlan":
		e.dhcpReset()
		e.soft(e.loader.AddVLANSubscriber(d.S, d.C, &bngebpf.PoolAssignment{PoolID: 1, LeaseExpiry: maxU64}))
		kv, _ := e.objs["dhcp_fastpath"].Dump("vlan_subscriber_pools")
		tagsq := [][2]uint16{{0x88a8, uint16(d.P1)<<12 | d.S}, {0x8100, uint16(d.P2)<<12 | d.C}}
		v, _ := e.runXDP(dhcpFrame([]byte{2, 0, 0, 0, 0, 0x44}, nil, tagsq))
		o = obs{fmt.Sprintf("OVlan %d %d %d %d", d.S, d.C, d.P1, d.P2), nll([][]uint64{bl(onlyKey(kv)), {b2n(v == bpfrun.XDPTx)}})}
	case "alg":
		e.newNat()
		for _, n := range []string{"subscriber_nat", "nat_sessions", "nat_reverse", "eim_table", "alg_ports", "hairpin_ips"} {
			e.objs["nat44"].Clear(n)
		}
		e.soft(e.m("nat44", "nat_config_map").Put(uint32(0), &nat.NATConfig{Flags: nat.NATFlagALGFTP | nat.NATFlagALGSIP, PortRangeStart: 1024, PortRangeEnd: 65535, DefaultPortsPerSub: 1024}))
		e.soft(e.natm.AddPublicIP(net.IPv4(203, 0, 113, 77)))
		priv := net.IPv4(10, 9, 9, 10).To4()
		_, err := e.natm.AllocateNAT(priv)
		e.soft(err)
		e.soft(e.natm.ConfigureALG(d.Port, d.Proto, nat.ALGTypeFTP, true))
		kv, _ := e.objs["nat44"].Dump("alg_ports")
		before, err := e.natm.GetStats()
		e.soft(err)
		var l4 []byte
		if d.Proto == 6 {
			l4 = tcp(4000, d.Port)
		} else {
			l4 = udp(4000, d.Port, make([]byte, 8))
		}
		fr := append(ethHdr([]byte{2, 0, 0, 0, 0, 9}, []byte{2, 0, 0, 0, 0, 8}, nil, 0x0800), ipv4(priv, []byte{8, 8, 8, 8}, d.Proto, l4)...)
		e.runTC("nat44", "nat44_egress", fr)
		after, err := e.natm.GetStats()
		e.soft(err)
		trig := before != nil && after != nil && after.ALGTriggers == before.ALGTriggers+1
		o = obs{fmt.Sprintf("OAlg %d %d", d.Port, d.Proto), nll([][]uint64{bl(onlyKey(kv)), {b2n(trig)}})}
	case "lpm":
		e.objs["antispoof"].Clear("subscriber_bindings")
		e.objs["antispoof"].Clear("allowed_ranges_v4")
		e.soft(e.asm.SetMode(antispoof.ModeLoose))
		n := &net.IPNet{IP: net.IP(d.IP).Mask(net.CIDRMask(d.Plen, 32)), Mask: net.CIDRMask(d.Plen, 32)}
		e.soft(e.asm.AddAllowedRange(n))
		kv, _ := e.objs["antispoof"].Dump("allowed_ranges_v4")
		fr := append(ethHdr([]byte{2, 0, 0, 0, 0, 9}, []byte{2, 0, 0, 0, 0, 0x55}, nil, 0x0800), ipv4(d.Src, []byte{8, 8, 8, 8}, 17, udp(1000, 53, make([]byte, 8)))...)
		v, _ := e.runTC("antispoof", "antispoof_ingress", fr)
		inpfx := n.Contains(net.IP(d.Src))
		o = obs{fmt.Sprintf("OLpm %d %s %s", d.Plen, nl(bl(n.IP.To4())), nl(bl(d.Src))), nll([][]uint64{bl(onlyKey(kv)), {b2n(v == bpfrun.TCActOK), b2n(inpfx)}})}
		e.soft(e.asm.SetMode(antispoof.ModeStrict))
		tags = append(tags, fmt.Sprintf("in-prefix:%v", inpfx))
	case "hash":
		h := bngebpf.HashCircuitID(d.Cid)
		b := make([]byte, 8)
		binary.LittleEndian.PutUint64(b, h)
		o = obs{"OHash " + nl(bl(d.Cid)), nll([][]uint64{bl(b)})}
	}
	return vh.Case{Coq: caseTerm([]obs{o}), Desc: d, Tags: tags}
}

// possibleCPUs parses /sys/devices/system/cpu/possible ("0-15").
func possibleCPUs() int {
	b, err := os.ReadFile("/sys/devices/system/cpu/possible")
	must(err)
	n := 0
	for _, part := range strings.Split(strings.TrimSpace(string(b)), ",") {
		var lo, hi int
		if c, _ := fmt.Sscanf(part, "%d-%d", &lo, &hi); c == 2 {
			n += hi - lo + 1
		} else {
			n++
		}
	}
	return n
}

func onlyKey(kv []bpfrun.KV) []byte {
	if len(kv) != 1 {
		return nil
	}
	return kv[0].Key
}

// ------------------------------------------------------------------------------ generators

var edge = []byte{0x00, 0x01, 0x7f, 0x80, 0xfe, 0xff}

func genKeys(r *vh.Rng, thorough bool) []Desc {
	var ds []Desc
	scale := 1
	if thorough {
		scale = 10
	}
	// MAC: edge patterns in every position pair + random
	for i := 0; i < 6; i++ {
		for _, b := range edge {
			m := []byte{2, 0x11, 0x22, 0x33, 0x44, 0x55}
			m[i] = b
			ds = append(ds, Desc{Kind: "mac", Mac: m})
		}
	}
	ds = append(ds, Desc{Kind: "mac", Mac: []byte{0xff, 0xff, 0xff, 0xff, 0xff, 0xff}}, Desc{Kind: "mac", Mac: []byte{0, 0, 0, 0, 0, 1}})
	for i := 0; i < 20*scale; i++ {
		ds = append(ds, Desc{Kind: "mac", Mac: r.Bytes(6)})
	}
	// hardware addresses of EVERY length 0..16 (hlen of the BOOTP header): zeros, all-ones, counting, edge byte in the
	// last / seventh position, random
	for l := 0; l <= 16; l++ {
		z, f, c := make([]byte, l), make([]byte, l), make([]byte, l)
		for i := 0; i < l; i++ {
			f[i], c[i] = 0xff, byte(i+1)
		}
		ds = append(ds, Desc{Kind: "mac", Mac: z}, Desc{Kind: "mac", Mac: f}, Desc{Kind: "mac", Mac: c})
		for _, b := range []byte{0x01, 0x80, 0xff} {
			if l > 0 {
				m := make([]byte, l)
				copy(m, []byte{2, 0x11, 0x22, 0x33, 0x44, 0x55, 0x66, 0x77})
				m[l-1] = b
				ds = append(ds, Desc{Kind: "mac", Mac: m})
			}
		}
		for i := 0; i < 2*scale; i++ {
			ds = append(ds, Desc{Kind: "mac", Mac: r.Bytes(l)})
		}
	}
	// IPv4 per site: palindromes (guarded) and general addresses (defect stream)
	privs := [][]byte{{10, 0, 0, 1}, {10, 1, 2, 3}, {172, 16, 5, 9}, {192, 168, 1, 100}, {100, 64, 0, 7}, {10, 255, 255, 254}}
	ppal := [][]byte{{10, 0, 0, 10}, {10, 7, 7, 10}, {10, 255, 255, 10}, {172, 20, 20, 172}, {192, 168, 168, 192}, {100, 64, 64, 100}}
	pubs := [][]byte{{203, 0, 113, 7}, {198, 51, 100, 1}, {8, 8, 4, 4}, {1, 2, 3, 4}, {255, 0, 0, 1}}
	pal := [][]byte{{1, 2, 2, 1}, {8, 8, 8, 8}, {203, 0, 0, 203}, {255, 255, 255, 255}, {1, 0, 0, 1}, {77, 200, 200, 77}}
	for i := 0; i < 6*scale; i++ {
		a, b := byte(r.U64()), byte(r.U64())
		pal = append(pal, []byte{a | 1, b, b, a | 1})
		ppal = append(ppal, []byte{10, b, b, 10})
		privs = append(privs, []byte{10, byte(r.U64()), byte(r.U64()), byte(r.U64())})
		pubs = append(pubs, []byte{byte(r.U64())%200 + 11, byte(r.U64()), byte(r.U64()), byte(r.U64())})
	}
	for _, site := range []int{1, 3, 4, 5, 6, 7, 8} {
		for _, ip := range append(append([][]byte{}, pal...), pubs...) {
			ds = append(ds, Desc{Kind: "ip", Site: site, IP: ip})
		}
		for _, ip := range privs {
			ds = append(ds, Desc{Kind: "ip", Site: site, IP: ip})
		}
	}
	for _, ip := range append(append([][]byte{}, ppal...), privs...) { // site 2: the program only NATs private sources
		ds = append(ds, Desc{Kind: "ip", Site: 2, IP: ip})
	}
	// meaning-level value members: IPv6 source bindings (with / without an IPv4 binding before), server MACs
	v6 := [][]byte{
		{0x20, 0x01, 0x0d, 0xb8, 0, 1, 0, 2, 0xa1, 0xb2, 0xc3, 0xd4, 0xe5, 0xf6, 7, 8},
		{0xfe, 0x80, 0, 0, 0, 0, 0, 0, 2, 0, 0, 0xff, 0xfe, 0, 0, 0x66},
		{0, 0, 0, 0, 0, 0, 0, 0, 0, 0, 0, 0, 0, 0, 0, 1},
		{0, 0, 0, 0, 0, 0, 0, 0, 0, 0, 0xff, 0xff, 10, 1, 2, 3},
		{0x20, 0x01, 0x01, 0x20, 0xaa, 0xbb, 0xbb, 0xaa, 1, 2, 2, 1, 9, 9, 9, 9}, // every 32-bit group a palindrome
		{1, 2, 3, 4, 5, 6, 7, 8, 9, 10, 11, 12, 13, 14, 15, 16},
		{0xff, 0xff, 0xff, 0xff, 0xff, 0xff, 0xff, 0xff, 0xff, 0xff, 0xff, 0xff, 0xff, 0xff, 0xff, 0xfe},
	}
	for i := 0; i < 6*scale; i++ {
		v6 = append(v6, r.Bytes(16))
	}
	for i := 0; i < 16; i++ { // one distinguished byte in every position
		a := make([]byte, 16)
		a[0], a[i] = 0x20, 0x80|byte(i+1)
		v6 = append(v6, a)
	}
	for i, a := range v6 {
		ds = append(ds, Desc{Kind: "val", Fam: 1, Site: i % 2, Val: a})
	}
	for _, m := range [][]byte{{2, 0, 0, 0, 0, 1}, {0xff, 0xfe, 0xfd, 0xfc, 0xfb, 0xfa}, {0, 0x11, 0x22, 0x33, 0x44, 0x55}, {0x80, 0, 0, 0, 0, 0x80},
		{2, 1, 2, 3, 4, 5, 6, 7}, {1, 2, 3, 4, 5, 6, 7, 8, 9, 10, 11, 12, 13, 14, 15, 16}} {
		ds = append(ds, Desc{Kind: "val", Fam: 2, Val: m})
	}
	for i := 0; i < 4*scale; i++ {
		ds = append(ds, Desc{Kind: "val", Fam: 2, Val: r.Bytes(6 + r.Intn(3))})
	}
	// 16-bit ports in the nat_sessions key: byte palindromes (guarded) and general ports
	for _, site := range []int{1, 2} {
		for _, p := range []uint16{53, 80, 443, 1024, 4000, 0x0101, 0x3535, 0x5000, 0x0050, 0xffff, 0xff00, 0x00ff, 0x1f1f} {
			ds = append(ds, Desc{Kind: "port", Site: site, Port: p})
		}
		for i := 0; i < 3*scale; i++ {
			ds = append(ds, Desc{Kind: "port", Site: site, Port: uint16(r.Intn(65535) + 1)})
			b := uint16(r.Intn(255) + 1)
			ds = append(ds, Desc{Kind: "port", Site: site, Port: b<<8 | b})
		}
	}
	// circuit-ids: every length 0..64 x every options offset the program recognises (3, 12..19) x sub-option layout
	positions := []int{3, 12, 13, 14, 15, 16, 17, 18, 19}
	for l := 0; l <= 64; l++ {
		c := r.Bytes(l)
		for i := range c {
			c[i] |= 1
		}
		ds = append(ds, Desc{Kind: "cid", Cid: c}, Desc{Kind: "hash", Cid: c})
		for _, pos := range positions {
			ds = append(ds, Desc{Kind: "cidat", Cid: c, Pos: pos, Lay: 0})
			if thorough || l <= 3 || (l >= 30 && l <= 34) || l == 64 {
				ds = append(ds, Desc{Kind: "cidat", Cid: c, Pos: pos, Lay: 1})
			}
			if thorough {
				ds = append(ds, Desc{Kind: "cidat", Cid: r.Bytes(l), Pos: pos, Lay: r.Intn(2)})
			}
		}
	}
	// VLAN pairs
	for _, s := range []uint16{1, 2, 100, 2047, 2048, 4094, 4095} {
		for _, c := range []uint16{1, 255, 256, 4095} {
			ds = append(ds, Desc{Kind: "vlan", S: s, C: c, P1: uint8(r.Intn(16)), P2: uint8(r.Intn(16))})
		}
	}
	for i := 0; i < 20*scale; i++ {
		ds = append(ds, Desc{Kind: "vlan", S: uint16(r.Intn(4095) + 1), C: uint16(r.Intn(4096)), P1: uint8(r.Intn(16)), P2: uint8(r.Intn(16))})
	}
	// ALG keys
	for _, pt := range []uint16{21, 5060, 1, 255, 256, 65535, 32768} {
		for _, pr := range []uint8{6, 17} {
			ds = append(ds, Desc{Kind: "alg", Port: pt, Proto: pr})
		}
	}
	for i := 0; i < 6*scale; i++ {
		ds = append(ds, Desc{Kind: "alg", Port: uint16(r.Intn(65535) + 1), Proto: []uint8{6, 17}[r.Intn(2)]})
	}
	// LPM ranges: sources inside and outside
	for _, c := range []struct {
		ip   []byte
		plen int
		src  []byte
	}{{[]byte{10, 0, 0, 0}, 8, []byte{10, 1, 2, 3}}, {[]byte{10, 0, 0, 0}, 8, []byte{11, 1, 2, 3}}, {[]byte{192, 168, 7, 0}, 24, []byte{192, 168, 7, 9}},
		{[]byte{0, 0, 0, 0}, 0, []byte{9, 9, 9, 9}}, {[]byte{10, 7, 7, 10}, 32, []byte{10, 7, 7, 10}}, {[]byte{10, 7, 7, 10}, 32, []byte{10, 7, 7, 11}},
		{[]byte{100, 64, 0, 0}, 10, []byte{100, 100, 1, 1}}, {[]byte{10, 0, 0, 0}, 8, []byte{0, 5, 5, 10}}} {
		ds = append(ds, Desc{Kind: "lpm", IP: c.ip, Plen: c.plen, Src: c.src})
	}
	for i := 0; i < 8*scale; i++ {
		ip := r.Bytes(4)
		plen := r.Intn(33)
		src := append([]byte{}, ip...)
		if r.Bool() {
			src[3] ^= byte(r.U64())
		} else {
			src = r.Bytes(4)
		}
		ds = append(ds, Desc{Kind: "lpm", IP: ip, Plen: plen, Src: src})
	}
	return ds
}

// ------------------------------------------------------------------------------ main

const header = `From Coq Require Import NArith List Bool String. Import ListNotations.
From Verif Require Import Base.Word Model.Layout Model.KeyDeriv Gen.Layouts Model.LayoutCheck.
Local Open Scope N_scope.
Definition cases : list case := [
`
const footer = `
].
Definition R := Eval vm_compute in run_cases cases.
Print R.
`

func (e *env) run(d Desc, r *vh.Rng, n int) vh.Case {
	if d.Kind == "layout" {
		p := e.pairs[d.Pair]
		if p == nil {
			e.errs = append(e.errs, "replay names a pair the working tree no longer has: "+d.Pair)
			return vh.Case{Coq: "[]", Desc: d, Tags: []string{"stale"}}
		}
		if len(d.Vals) == 0 && len(d.Raws) == 0 {
			dd := e.layoutDesc(p, r, n)
			dd.Field = d.Field
			d = dd
		}
		return e.layoutCase(p, d)
	}
	if !e.kernel {
		return vh.Case{Coq: "[]", Desc: d, Tags: []string{"no-kernel"}}
	}
	return e.keyCase(d)
}

func main() {
	cfg := vh.ParseFlags()
	e := newEnv()
	defer func() {
		for _, o := range e.objs {
			o.Close()
		}
	}()
	r := vh.NewRng(cfg.Seed)
	n := 6
	if cfg.Thorough() {
		n = 40
	}
	extra := func() map[string]interface{} {
		return map[string]interface{}{"kernel_bpf": e.kernel, "kernel_test_runs": e.runs, "driver_errors": e.errs, "unexercised_pairs": e.skipped,
			"pairs": len(e.order), "bpf_dir": e.dir}
	}
	if cfg.Replay != "" {
		var d Desc
		must(vh.LoadReplay(cfg.Replay, &d))
		vh.Emit(cfg, "cases", header, footer, []vh.Case{e.run(d, r.Fork(), n)}, extra())
		return
	}
	var corpus []vh.Case
	for _, f := range vh.CorpusFiles(cfg) {
		var d Desc
		must(vh.LoadReplay(f, &d))
		corpus = append(corpus, e.run(d, r.Fork(), n))
	}
	if len(corpus) > 0 {
		vh.Emit(cfg, "corpus", header, footer, corpus, nil)
	}
	var lay []vh.Case
	for _, p := range e.order {
		lay = append(lay, e.run(Desc{Kind: "layout", Pair: p.Name}, r.Fork(), n))
	}
	ex := extra()
	ex["exhaustive"] = true
	cfgL := cfg
	cfgL.Shard = 12
	vh.Emit(cfgL, "layouts", header, footer, lay, ex)
	var keys []vh.Case
	if e.kernel {
		for _, d := range genKeys(r.Fork(), cfg.Thorough()) {
			keys = append(keys, e.run(d, r.Fork(), n))
		}
	}
	vh.Emit(cfg, "keys", header, footer, keys, extra())
}
